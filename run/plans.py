"""Per-property plans: which engines run, how many cases, at what level."""
from vdrive import Job


def shard(kind, engine, prop, tier, seed, total, shards, timeout=900, extra=None, env=None):
    """Split case indices 0..total-1 over `shards` children (interleaved)."""
    jobs = []
    shards = max(1, min(shards, total))
    for s in range(shards):
        args = {"prop": prop, "tier": tier, "seed": seed, "from": s, "to": total, "stride": shards}
        if extra:
            args["extra"] = extra
        jobs.append(Job(kind, engine, args, timeout=timeout, env=env))
    return jobs


def one(kind, engine, prop, tier, seed, timeout=900, extra=None, env=None):
    args = {"prop": prop, "tier": tier, "seed": seed}
    if extra:
        args["extra"] = extra
    return [Job(kind, engine, args, timeout=timeout, env=env)]


def plan(prop, tier, seed):
    q = tier == "quick"
    f = globals().get("plan_" + prop)
    if f is None:
        return None
    return f(tier, seed, q)


def plan_C07(tier, seed, q):
    return {
        "level": "exploration",
        "jobs": one("rt", "codec", "C07", tier, seed, timeout=1500),
        "rule": "header values = boundary lists (every varint boundary of seq and of each length field, pairwise for "
                "string x body lengths, megabyte boundaries) plus seeded random values, for pb/code/json directly and "
                "for all four formats through a real Conn / ServeCodec; a case is distinct by (format, request|response, "
                "seq varint size, length class of each field) and non-trivial when at least one obligation (scratch-buffer "
                "independence, reference decode, library round trip, reference-encoded interop) was evaluated on it",
        "min_evaluations": 1000,
        "min_distinct": 50,
        "assumptions": ["reference codecs in harness/wire follow the documented formats",
                        "method names and error texts are valid UTF-8 under the json header (as the property states)"],
    }
