"""Per-property plans: which engines run, how many cases, at what level."""
from vdrive import Job


def shard(kind, engine, prop, tier, seed, total, shards, timeout=900, extra=None, env=None):
    """Split case indices 0..total-1 over `shards` children (interleaved)."""
    jobs = []
    shards = max(1, min(shards, total))
    for s in range(shards):
        args = {"prop": prop, "tier": tier, "seed": seed, "from": s, "to": total, "stride": shards}
        if extra:
            args["extra"] = extra
        jobs.append(Job(kind, engine, args, timeout=timeout, env=env))
    return jobs


def one(kind, engine, prop, tier, seed, timeout=900, extra=None, env=None):
    args = {"prop": prop, "tier": tier, "seed": seed}
    if extra:
        args["extra"] = extra
    return [Job(kind, engine, args, timeout=timeout, env=env)]


def plan(prop, tier, seed):
    q = tier == "quick"
    f = globals().get("plan_" + prop)
    if f is None:
        return None
    return f(tier, seed, q)


def plan_C07(tier, seed, q):
    return {
        "level": "exploration",
        "jobs": one("rt", "codec", "C07", tier, seed, timeout=1500),
        "rule": "header values = boundary lists (every varint boundary of seq and of each length field, pairwise for "
                "string x body lengths, megabyte boundaries) plus seeded random values, for pb/code/json directly and "
                "for all four formats through a real Conn / ServeCodec; a case is distinct by (format, request|response, "
                "seq varint size, length class of each field) and non-trivial when at least one obligation (scratch-buffer "
                "independence, reference decode, library round trip, reference-encoded interop) was evaluated on it",
        "min_evaluations": 1000,
        "min_distinct": 50,
        "assumptions": ["reference codecs in harness/wire follow the documented formats",
                        "method names and error texts are valid UTF-8 under the json header (as the property states)"],
    }


def e2e_jobs(prop, tier, seed, profile, nq, nt, shards=12, scale_t=3, race_t=0, kind="vt"):
    q = tier == "quick"
    n = nq if q else nt
    jobs = shard(kind, "e2e", prop, tier, seed, n, shards, timeout=900 if q else 2400,
                 extra={"profile": profile, "scale": 1 if q else scale_t})
    if not q and race_t:
        jobs += shard("vt-race", "e2e", prop, tier, seed + 1000, race_t, shards, timeout=2400,
                      extra={"profile": profile, "scale": 1})
    return jobs


E2E_RULE = ("scenario = (header encoder, body codec, server modes, client modes, buffer sizes, fragmentation, connections, "
            "callers, op list) derived from (seed, index); run on the real Server/Conn stack over the in-memory network "
            "inside a synctest bubble until quiescence; distinct = distinct (configuration, profile, hash of the server's "
            "execution order); non-trivial = more than one operation or at least one stream")
V_ASSUME = ["go1.26.8 testing/synctest schedules the real library code faithfully (virtual clock, quiescence detection)",
            "memnet models a reliable byte stream with arbitrary fragmentation; no OS socket is involved"]


def plan_C01(tier, seed, q):
    return {"level": "exploration", "rule": E2E_RULE + "; oracle: reply == f(own args) byte for byte and handler saw exactly those args; the same oracle "
            "on profile 'errors' (~45% of the calls fail, incl. requests that cannot be encoded and take a little time to fail), where successful "
            "calls share their connection with every kind of failing call",
            "jobs": e2e_jobs("C01", tier, seed, "mix", 420, 6000, race_t=600) + e2e_jobs("C01", tier, seed + 3, "errors", 300, 4000)
            + real_jobs("C01", tier, seed, "mix", 60, 600, race_t=120),
            "min_evaluations": 100, "min_distinct": 50, "assumptions": V_ASSUME}


def plan_C05(tier, seed, q):
    return {"level": "exploration", "rule": E2E_RULE + "; profile 'order': server pipelining on, one issuer per connection using Go on a shared Done "
            "channel; oracles: handler entry order == issue order per connection, no overlap, wire response order == request order, "
            "arrival order on Done == issue order when the client pipelines too; plus the cut engine on the four server-pipelining mode combinations ("
            + CUT_RULE + "): while a connection goes down at any byte offset or step, the requests already received are still executed one at a "
            "time and in the order sent",
            "jobs": e2e_jobs("C05", tier, seed, "order", 300, 4000, race_t=400) + real_jobs("C05", tier, seed, "order", 48, 400, race_t=96, poll=1)
            + (cut_jobs("C05", tier, seed, [1], [5, 6, 8], 5, 8) if q else cut_jobs("C05", tier, seed, [1, 5, 6, 8], [], 1, 16, timeout=3000)),
            "min_evaluations": 100, "min_distinct": 50, "assumptions": V_ASSUME}


def plan_C06(tier, seed, q):
    return {"level": "exploration", "rule": E2E_RULE + "; profile 'errors': ~45% of the calls fail (handler error with generated text, unknown method, "
            "undecodable arguments, unencodable reply, unencodable request); oracles: text == server text (handler text, or the text "
            "seen on the wire for library-generated errors) at return and at the end of the scenario, reply object untouched, "
            "neighbours correct, NumCalls()==0 afterwards",
            "jobs": e2e_jobs("C06", tier, seed, "errors", 400, 6000, race_t=600) + e2e_jobs("C06", tier, seed + 7, "mix", 120, 1500),
            "min_evaluations": 100, "min_distinct": 50, "assumptions": V_ASSUME}


def plan_C09(tier, seed, q):
    return {"level": "exploration", "rule": E2E_RULE + "; profile 'streams': 1-16 streams per connection, handler pushes 0/1/5 messages right after open, "
            "client writes first or reads first, echo/sink/burst steps, unary traffic alongside; oracles: sequence equality on both ends, "
            "no reader blocked at quiescence",
            "jobs": e2e_jobs("C09", tier, seed, "streams", 400, 6000, race_t=600) + e2e_jobs("C09", tier, seed + 7, "mix", 120, 1500) + real_jobs("C09", tier, seed, "streams", 48, 500, race_t=96),
            "min_evaluations": 100, "min_distinct": 50, "assumptions": V_ASSUME}


def plan_C11(tier, seed, q):
    return {"level": "exploration", "rule": E2E_RULE + "; profile 'retain': aliasing codecs (bytes, pb, code), handlers keep their argument slices, callers keep "
            "replies (fresh and context-buffer) and stream messages, GC forced every 3 virtual ms; oracles: SHA-256 at hand-over == "
            "SHA-256 at the end, canary bytes of caller-supplied buffers beyond the encoded reply untouched",
            "jobs": e2e_jobs("C11", tier, seed, "retain", 240, 1500, race_t=200) + e2e_jobs("C11", tier, seed + 7, "mix", 120, 1500) + real_jobs("C11", tier, seed, "retain", 36, 300, race_t=72),
            "min_evaluations": 100, "min_distinct": 50, "assumptions": V_ASSUME}


def sched_jobs(prop, tier, seed, specs, shards=6, kind="vt", timeout=1500):
    jobs = []
    for ex in specs:
        for s in range(shards):
            args = {"prop": prop, "tier": tier, "seed": seed, "from": s, "to": 0, "stride": shards, "extra": ex}
            jobs.append(Job(kind, "sched", args, timeout=timeout))
    return jobs


SCHED_RULE = ("script = sequence of boundary events over N outstanding operations (forms rotate over Go, RoundTrip, Call, "
              "CallWithContext, Ping; header encoder and client mode rotate) from {write i succeeds, write i fails, response i, "
              "error response i, duplicate i, unknown-seq response, peer EOF, read error, local Close%s}, released one at a time by a "
              "scripted peer with synctest.Wait() between events (or the last two concurrently in the racing variants), then Close; "
              "ALL statically valid scripts up to the stated length are enumerated; distinct = distinct script (x racing flag); "
              "non-trivial = contains a terminating event or at least two events")


def plan_C02(tier, seed, q):
    if q:
        specs = [{"n": 2, "l": 6}, {"n": 3, "l": 4}, {"n": 2, "l": 4, "race": 6}, {"n": 1, "l": 6}, {"n": 3, "l": 5, "sample": 4}]
        jobs = (sched_jobs("C02", tier, seed, specs, shards=4) + e2e_jobs("C02", tier, seed, "mix", 200, 3000, shards=8)
                + e2e_jobs("C02", tier, seed + 5, "order", 120, 1500, shards=6)
                + pool_jobs("C02", tier, seed, [("limits", 600), ("restart", 600)], shards=4))
    else:
        specs = [{"n": 2, "l": 7}, {"n": 3, "l": 5}, {"n": 3, "l": 6, "sample": 6}, {"n": 3, "l": 4, "race": 8}, {"n": 1, "l": 7}, {"n": 4, "l": 4, "sample": 3}]
        jobs = sched_jobs("C02", tier, seed, specs, shards=8, timeout=3000)
        jobs += sched_jobs("C02", tier, seed, [{"n": 2, "l": 4, "race": 3}, {"n": 3, "l": 3}], shards=4, kind="vt-race", timeout=3000)
        jobs += e2e_jobs("C02", tier, seed, "mix", 200, 3000, shards=8, race_t=300)
        jobs += e2e_jobs("C02", tier, seed + 5, "order", 120, 1500, shards=6)
        jobs += pool_jobs("C02", tier, seed, [("limits", 8000), ("restart", 8000)], shards=8)
    return {"level": "fault_enumeration", "exhaustive": False,
            "exhaustive_parts": ["every statically valid event script for (N=2, L<=6), (N=3, L<=4), (N=1, L<=6)" if q else
                                 "every statically valid event script for (N=2, L<=7), (N=3, L<=5), (N=1, L<=7)",
                                 "larger (N, L) are sampled (every k-th script), racing variants repeat each script a few times, generated e2e/pool workloads are sampled"],
            "rule": SCHED_RULE % "" + "; oracle: every operation is signalled exactly once (Done arrivals counted on a channel with room; "
            "blocking forms return once), Error unchanged after the first signal, successful replies == f(args), and fresh pooled "
            "calls parked on a second connection are not completed by a late signal (canary); plus generated workloads on the real stack (engine e2e) "
            "and through a Transport with server kills (engine pool) where every asynchronous call keeps a Done channel with spare room that is "
            "inspected again at the end of the scenario",
            "jobs": jobs, "min_evaluations": 1000, "min_distinct": 500, "parallel": 14,
            "assumptions": V_ASSUME + ["the scripted peer replaces the socket below ClientCodec (socket.Messages level)"]}


def plan_C19(tier, seed, q):
    if q:
        specs = [{"n": 2, "l": 5, "ctx": True}, {"n": 3, "l": 4, "ctx": True, "race": 2}]
        jobs = sched_jobs("C19", tier, seed, specs, shards=4) + e2e_jobs("C19", tier, seed, "ctx", 240, 3000, shards=6)
    else:
        specs = [{"n": 2, "l": 6, "ctx": True}, {"n": 3, "l": 5, "ctx": True, "sample": 3}, {"n": 3, "l": 4, "ctx": True, "race": 5}]
        jobs = sched_jobs("C19", tier, seed, specs, shards=8, timeout=3000) + e2e_jobs("C19", tier, seed, "ctx", 240, 4000, race_t=400)
    return {"level": "exploration",
            "rule": SCHED_RULE % ", cancel context i (after request i has been written, or - with client pipelining - while it is still queued behind an earlier, gated write)" + "; every operation is a CallWithContext (with and "
            "without context buffer); oracles: after a cancel event the call has returned at quiescence, siblings complete once with "
            "f(args), and a sibling whose request was written returns as soon as its response arrives whatever was abandoned before; plus e2e profile 'ctx': deadlines shorter than the handler delay on the real server, return instant == deadline "
            "in virtual time, context buffer used iff the encoded reply fits, canary bytes intact",
            "jobs": jobs, "min_evaluations": 1000, "min_distinct": 500, "parallel": 14, "assumptions": V_ASSUME}


def cut_jobs(prop, tier, seed, full_modes, sampled_modes, every, shards, kind="vt", timeout=1800):
    jobs = []
    for s in range(shards):
        jobs.append(Job(kind, "cut", {"prop": prop, "tier": tier, "seed": seed, "from": s, "to": 0, "stride": shards,
                                      "extra": {"modes": full_modes, "every": 1}}, timeout=timeout))
    if sampled_modes:
        for s in range(max(1, shards // 2)):
            jobs.append(Job(kind, "cut", {"prop": prop, "tier": tier, "seed": seed, "from": s, "to": 0, "stride": max(1, shards // 2),
                                          "extra": {"modes": sampled_modes, "every": every}}, timeout=timeout))
    return jobs


CUT_RULE = ("a fixed conversation (10 asynchronous calls of mixed sizes incl. one failing, a ping, a stream with a server push and an "
            "echo, a final blocking call) is run uncut to learn its byte length per direction, then re-run once per (server/client mode "
            "combination, direction, byte offset, kind in {reset, EOF, custom I/O error}) and once per (step 0..8, local Close | "
            "Server.Close, synchronous | concurrent); distinct = distinct (mode, direction, offset, kind); non-trivial = the cut tripped")


def plan_C03(tier, seed, q):
    if q:
        full = [[0, 5, 6, 1][seed % 4]]
        sampled = [m for m in range(9) if m not in full]
        jobs = cut_jobs("C03", tier, seed, full, sampled, 7, 12)
        jobs += shard("vt", "sclose", "C03", tier, seed, 3000, 4, timeout=1500)
    else:
        jobs = cut_jobs("C03", tier, seed, list(range(9)), [], 1, 16, timeout=3000)
        jobs += cut_jobs("C03", tier, seed, [0, 5], [], 1, 8, kind="vt-race", timeout=3000)
        jobs += shard("vt", "sclose", "C03", tier, seed, 60000, 16, timeout=3000)
    return {"level": "fault_enumeration", "exhaustive": False,
            "exhaustive_parts": ["every (direction, byte offset, kind) of the conversation for one mode combination; every 7th offset for the other eight" if q else
                                 "every (direction, byte offset, kind) and every (step, Close) of the conversation for all nine mode combinations"],
            "rule": CUT_RULE + "; oracles at quiescence: every operation has returned; a call whose "
            "complete response frame lies inside the bytes delivered to the client succeeded with f(args) (or its own error text); every other "
            "outstanding call failed, with ErrShutdown when it had been written and the end was orderly; operations started after the end "
            "was observable fail with ErrShutdown in zero virtual time; a Call issued afterwards fails at once writing nothing; plus engine 'sclose' "
            "(PRNG-sampled, not enumerated): connections with 1-5 open streams, blocked readers and - in a third of the scenarios - goroutines writing "
            "bursts of stream messages at the very instant the connection is closed, cut or the server closed; afterwards a Call on the connection "
            "returns ErrShutdown in zero virtual time (a lock-order deadlock between the teardown sweep and a stream operation freezes the bubble "
            "and is reported by the watchdog)",
            "jobs": jobs, "min_evaluations": 2000, "min_distinct": 1000, "parallel": 16, "assumptions": V_ASSUME + [
                "quick enumerates every byte offset for one mode combination (chosen by the seed) and every 7th offset for the other eight; thorough enumerates all nine completely"]}


def plan_C08(tier, seed, q):
    jobs = []
    for side in ("server", "client"):
        for hdr in ("default", "pb", "code", "json"):
            for mode in (0, 1, 2):
                ex = {"side": side, "hdr": hdr, "mode": mode, "full": not q, "bursts": (250 if q else 4000) if side == "server" else 0}
                jobs.append(Job("rt", "hostile", {"prop": "C08", "tier": tier, "seed": seed, "extra": ex}, timeout=1500 if q else 3300))
    for hdr in (("default", "code") if q else ("default", "pb", "code", "json")):
        for mode in ((0, 1) if q else (0, 1, 2)):
            ex = {"side": "server", "hdr": hdr, "mode": mode, "full": False, "bursts": 150 if q else 2000, "poll": True}
            jobs.append(Job("rt", "hostile", {"prop": "C08", "tier": tier, "seed": seed, "extra": ex}, timeout=1500 if q else 3300))
    if not q:
        for side in ("server", "client"):
            for hdr in ("default", "code"):
                ex = {"side": side, "hdr": hdr, "mode": 0, "full": False, "bursts": 600 if side == "server" else 0}
                jobs.append(Job("rt-race", "hostile", {"prop": "C08", "tier": tier, "seed": seed + 1, "extra": ex}, timeout=3300))
    # "disconnecting ... with requests queued or executing ... traffic on other connections is still served"
    jobs += real_jobs("C08", tier, seed, "order", 24, 200, shards=6)
    return {"level": "fault_enumeration", "exhaustive": False,
            "exhaustive_parts": ["all 256 upgrade bytes x 4 method kinds x 3 body kinds", "every truncation of every corpus frame",
                                 "every single-bit flip and {00,7f,80,ff} at every position of every corpus frame (first 80 bytes of the 70 KB frame)",
                                 "random frames, multi-byte mutations and burst+disconnect timings are sampled"],
            "rule": "inputs are byte strings delivered as one frame to a real ServeCodec loop (server side) or to a real Conn with calls, a ping "
                    "and an acknowledged stream outstanding (client side), per header encoder x I/O mode: a corpus of valid frames (every handler "
                    "shape, ping, stream open/message/close for known and unknown ids, unknown/empty method, undecodable/empty/70 KB body), ALL 256 "
                    "upgrade bytes x 4 method kinds x 3 body kinds, EVERY truncation of every corpus frame, every single-bit flip plus {00,7f,80,ff} "
                    "at every position (thorough: all 255 other values for frames <= 64 B), seeded random frames and multi-byte mutations, and bursts "
                    "of 1..64 well-formed requests followed at once by EOF/reset; each worker process logs an input before delivering it, the supervisor "
                    "restarts it behind an input that kills it; probes on the same and on another connection must still be served; distinct = distinct "
                    "(side, header, mode, family, corpus frame | upgrade byte); poll-mode servers get the same families over raw loopback TCP; plus the "
                    "real-socket teardown scenarios of engine 'real' (profile 'order'): a client disconnects while its first request is held at a gate "
                    "and later ones are queued; a call on a newly accepted connection must complete while the gate is shut (decided causally: "
                    "completing only once the gate opens is the violation)",
            "jobs": jobs, "min_evaluations": 20000, "min_distinct": 200, "parallel": 12,
            "assumptions": ["frames are delivered through socket.Messages (never raw stream garbage below the frame layer, whose length-prefix parser belongs to hslam/socket)",
                            "handlers of the harness are total; corrupted harness payload headers are clamped so that a corrupted delay/size field cannot stall the worker",
                            "poll-mode (netpoll) servers receive the same frame families over raw loopback TCP connections (frames written with their length prefix)"]}


def pool_jobs(prop, tier, seed, classes, shards=6, kind="vt", timeout=1500):
    jobs = []
    for cls, n in classes:
        jobs += shard(kind, "pool", prop, tier, seed, n, shards, timeout=timeout, extra={"class": cls})
    return jobs


POOL_RULE = ("history = (limits, KeepAlive, IdleConnTimeout, 1-3 addresses, 1-32 callers with virtual think times 0-3 s using every call form, "
             "pings and streams, long handlers of 0.5-30 x KeepAlive, CloseIdleConnections at PRNG instants, kill/restart of servers, and hook H1 "
             "sleeping <tick / >KeepAlive / >KeepAlive+IdleConnTimeout of virtual time between getConn and the use of the connection) derived "
             "from (seed, index) and run against a real Transport and real servers over memnet in virtual time; distinct = distinct history "
             "parameters; non-trivial = more than one call")


def plan_C13(tier, seed, q):
    n = 3000 if q else 40000
    jobs = pool_jobs("C13", tier, seed, [("limits", n), ("busy", n // 4)], shards=8)
    if not q:
        jobs += pool_jobs("C13", tier, seed + 1, [("limits", 800)], shards=8, kind="vt-race", timeout=3000)
    return {"level": "exploration", "rule": POOL_RULE + "; oracles: at every dial (inside memnet's dial critical section) the number of client-side "
            "open connections to the address is <= the effective MaxConnsPerHost; at every 250 ms of virtual time hook H3 shows idle <= effective "
            "MaxIdleConnsPerHost and active+idle <= MaxConnsPerHost; non-positive limits fall back to the defaults and idle is clamped",
            "jobs": jobs, "min_evaluations": 100, "min_distinct": 50, "assumptions": V_ASSUME}


def plan_C14(tier, seed, q):
    n = 3000 if q else 100000
    jobs = pool_jobs("C14", tier, seed, [("restart", n), ("limits", n // 3)], shards=8 if q else 16)
    jobs += one("rt", "restart", "C14", tier, seed, timeout=1500 if q else 3300, extra={"n": 16 if q else 200})
    if not q:
        jobs += pool_jobs("C14", tier, seed + 1, [("restart", 800)], shards=8, kind="vt-race", timeout=3000)
    return {"level": "fault_enumeration", "rule": POOL_RULE + "; class 'restart': one sequential caller with call spacing from {10 ms .. 6 s} around "
            "KeepAlive/IdleConnTimeout, server killed at a PRNG-chosen call and restarted 1-4 calls later; oracles: an execution appears only in a "
            "ledger of the requested address; while down calls return ErrDial/ErrShutdown in zero virtual time; ErrShutdown failures after the kill "
            "<= connections pooled at the kill (hook H3); no other error once restarted; the caller succeeds again; plus engine 'restart' on real "
            "sockets (tcp / unix / inproc, with and without TLS, poll and ordinary servers): the server is closed and another one started on the same "
            "address; once a direct dial reaches it, 2*max+3 sequential calls through the Transport see at most one ErrShutdown per connection pooled "
            "at the kill, no other error, and the last one succeeds (counted, not timed)",
            "jobs": jobs, "min_evaluations": 100, "min_distinct": 50, "assumptions": V_ASSUME}


def plan_C15(tier, seed, q):
    n = 3000 if q else 100000
    jobs = pool_jobs("C15", tier, seed, [("busy", n), ("limits", n // 3)], shards=8 if q else 16)
    if not q:
        jobs += pool_jobs("C15", tier, seed + 1, [("busy", 800)], shards=8, kind="vt-race", timeout=3000)
    return {"level": "exploration", "rule": POOL_RULE + "; oracles: a call (or stream) to a never-killed server whose request had been written to a "
            "connection (wire tap) must not fail because the client side closed that connection; KeepAlive + IdleConnTimeout + 2 ticks after the "
            "last use no client-side connection is open; none is open after Transport.Close",
            "jobs": jobs, "min_evaluations": 100, "min_distinct": 50, "assumptions": V_ASSUME + [
                "a connection closed by housekeeping inside the H1 window before the request was written is outside the statement and only counted"]}


def policy_jobs(prop, tier, seed, cls, n, shards=6, kind="vt", timeout=1500):
    return shard(kind, "policy", prop, tier, seed, n, shards, timeout=timeout, extra={"class": cls})


POLICY_ASSUME = ["the fake RoundTripper (scripted health and latency per address) stands for Transport + network",
                 "go1.26.8 testing/synctest virtual clock: the duration the Client measures is exactly the scripted latency"]


def plan_C16(tier, seed, q):
    n = 8000 if q else 600000
    jobs = policy_jobs("C16", tier, seed, "route", n, shards=8 if q else 16)
    if not q:
        jobs += policy_jobs("C16", tier, seed + 1, "route", 3000, shards=8, kind="vt-race", timeout=3000)
    return {"level": "exploration",
            "rule": "history = 1-7 concurrent callers (all call forms except Ping, each call tagged with a unique token visible to the fake RoundTripper) x "
                    "3-10 Update calls with overlapping/duplicate/empty target sets x Director changes x scripted health flapping x all three policies, "
                    "<= ~200 operations each; every history is checked with porcupine for linearizability against the sequential model 'state = last "
                    "supplied set; a route returns a member of the state'; call stamp = API invocation, return stamp = arrival at the RoundTripper, both "
                    "from one logical counter; routes to a Director address must coincide with a Director invocation returning it; distinct = distinct "
                    "history (index, callers, operation count, policy); non-trivial = more than one route operation",
            "jobs": jobs, "min_evaluations": 200, "min_distinct": 100, "assumptions": POLICY_ASSUME + ["porcupine v1.3.0; a 60 s checker timeout is reported as inconclusive"]}


def plan_C17(tier, seed, q):
    n = 6000 if q else 250000
    jobs = policy_jobs("C17", tier, seed, "policy", n, shards=8 if q else 16)
    return {"level": "exploration",
            "rule": "sequence = single caller, 2-8 live targets, policy in {RoundRobin, Random, LeastTime}, Alpha in {0.1,0.5,0.8,0.99}, Tick in {10ms,100ms,1s}, "
                    "latency profile in {constant, swapped mid-run, drifting}, call spacing co-prime with Tick, 120-220 calls, optionally one target "
                    "refusing for 50 ms; a shadow model computes probe/non-probe classification, the argmin set and every EWMA estimate exactly (virtual "
                    "time) and is compared with the observed target of every call and with hook VerifLatencies after every call; RoundRobin windows "
                    "of n calls must hit n distinct targets; probes must rotate cyclically; distinct = distinct (parameters, hash of the route sequence)",
            "jobs": jobs, "min_evaluations": 200, "min_distinct": 100, "assumptions": POLICY_ASSUME}


def plan_C18(tier, seed, q):
    n = 8000 if q else 600000
    jobs = policy_jobs("C18", tier, seed, "failover", n, shards=8 if q else 16)
    if not q:
        jobs += policy_jobs("C18", tier, seed + 1, "failover", 3000, shards=8, kind="vt-race", timeout=3000)
    return {"level": "fault_enumeration",
            "rule": "history = variant in {waiters, close, fallback, failover, update} x 2-4 targets x DialTimeout in {50ms,300ms,5s} x ping latency 0-3 ms x optional hook-H1 "
                    "delay (0-250 ms) inside the lost-wake-up window x 1-64 concurrent waiting callers of all six call forms; up/down script per target; "
                    "oracles in exact virtual time: a routed waiter was released within one detector tick + ping latency of a target coming up; a waiter "
                    "released by Close returns ErrShutdown at that instant; otherwise it returns ErrTimeout exactly at start+DialTimeout (Call/"
                    "CallWithContext; the other forms a non-nil error); nobody waits longer; calls after Close fail in zero time; a refusing target stops "
                    "receiving user calls within 2 ticks + ping latency of the first failure and is used again within 1.5 s of recovering; variant update: all targets healthy, "
                    "2-7 Updates (same/sub/superset) >= 250 ms apart with calls in flight on every target: a parked caller is routed within 2 ticks + ping latency, nobody times out "
                    "when DialTimeout exceeds that, calls started a round after the last Update are routed",
            "jobs": jobs, "min_evaluations": 200, "min_distinct": 100, "assumptions": POLICY_ASSUME + [
                "'no target is live' means the client's live set is empty (never up, or seen refusing by the client); the single-believed-live-target fast path is not judged"]}


def plan_C20(tier, seed, q):
    n = 4000 if q else 150000
    jobs = shard("vt", "lifecycle", "C20", tier, seed, n, 8 if q else 16, timeout=1500 if q else 3000)
    jobs += one("rt", "restart", "C20", tier, seed, timeout=1500 if q else 3300, extra={"n": 12 if q else 120})
    if not q:
        jobs += shard("vt-race", "lifecycle", "C20", tier, seed + 1, 1500, 8, timeout=3000)
    return {"level": "exploration",
            "rule": "history = usage before Close in {idle, calls in flight held by gated handlers, open streams with blocked readers, Transport with pooled "
                    "connections, Client with routed or waiting callers, peers reset first, abandoned context calls} x I/O mode combination x header encoder x "
                    "every order of closing {connections, Transport, Client, Server} (each Close called twice), then the handler gates are opened; at "
                    "quiescence plus 5 virtual seconds: no goroutine created since the scenario began has a frame of hslam/rpc, scheduler, writer or socket "
                    "on its stack, no memnet connection end is open on either side, Listen has returned, second Conn.Close == ErrShutdown, the other "
                    "second Close calls == nil; plus engine 'restart' on real sockets: after a server was closed and another one listens on the same address "
                    "(tcp / unix / inproc), closing the first one again returns nil and leaves the second one reachable; distinct = distinct history parameters",
            "jobs": jobs, "min_evaluations": 100, "min_distinct": 50, "assumptions": V_ASSUME + ["poll-mode servers are excluded by the statement"]}


def plan_C10(tier, seed, q):
    n = 4000 if q else 80000
    jobs = shard("vt", "sclose", "C10", tier, seed, n, 8, timeout=1500)
    if q:
        jobs += cut_jobs("C10", tier, seed, [], [0, 2, 5], 5, 6)
    else:
        jobs += cut_jobs("C10", tier, seed, [0, 2, 5, 6], [], 1, 12, timeout=3000)
        jobs += shard("vt-race", "sclose", "C10", tier, seed + 1, 3000, 8, timeout=3000)
    jobs += one("rt", "pollstream", "C10", tier, seed, timeout=900, extra={"n": 40 if q else 400})
    return {"level": "fault_enumeration",
            "rule": "scenario = 1-5 sibling streams on one connection (4 header encoders x 4 body codecs x 9 I/O mode combinations x fragmentation), each with a "
                    "client reader and the server handler blocked in ReadMessage, optionally with messages in flight, then one event from {client closes one "
                    "stream, Conn.Close, cut of either direction (reset/EOF/custom) a few bytes ahead, Server.Close}; at quiescence (virtual time) every "
                    "affected blocked ReadMessage has returned ErrStreamShutdown, the handler has returned, later Read/WriteMessage return "
                    "ErrStreamShutdown in zero time, and after closing one stream its siblings still echo and a unary call still works; in half of the close-one-stream "
                    "scenarios a 30-virtual-second unary handler runs on the connection and the closed stream's handler must exit before it does; plus the stream "
                    "operations of the cut engine's byte-offset enumeration; plus engine 'pollstream' on real TCP/UNIX sockets against poll-mode servers "
                    "(handler must exit after the client disconnects, judged by the responsiveness-relative rule); distinct = distinct scenario parameters",
            "jobs": jobs, "min_evaluations": 300, "min_distinct": 100, "parallel": 14,
            "assumptions": V_ASSUME + ["poll-mode servers cannot run in the bubble; their verdicts come from real time and may be inconclusive",
                                       "a WriteMessage racing with the shutdown may still return nil (write errors are not surfaced by the stream API); only later writes must fail"]}


def real_jobs(prop, tier, seed, profile, nq, nt, shards=12, race_t=0, poll=0):
    q = tier == "quick"
    n = nq if q else nt
    jobs = shard("rt", "real", prop, tier, seed, n, shards, timeout=900 if q else 3000, extra={"profile": profile, "poll": poll})
    if not q and race_t:
        jobs += shard("rt-race", "real", prop, tier, seed + 1000, race_t, shards, timeout=3000, extra={"profile": profile, "poll": poll})
    return jobs


R_RULE = ("; the same scenarios also run in real time over tcp/unix/inproc sockets against poll-mode (netpoll) and ordinary servers "
          "(engine 'real': value oracles only, a real-time budget that runs out is inconclusive)")
R_ASSUME = ["real-network scenarios use loopback TCP ports chosen by the kernel and unix sockets under /verif/out; verdicts there never depend on wall-clock deadlines"]


def plan_C04(tier, seed, q):
    jobs = (e2e_jobs("C04", tier, seed, "mix", 300, 4000, race_t=400) + e2e_jobs("C04", tier, seed + 3, "errors", 200, 3000)
            + real_jobs("C04", tier, seed, "mix", 48, 500, race_t=96)
            + pool_jobs("C04", tier, seed, [("limits", 300 if q else 6000)], shards=6)
            + cut_jobs("C04", tier, seed, [], [0, 1, 2, 6], 9 if q else 2, 4)
            + shard("vt", "flags", "C04", tier, seed, 288, 6, timeout=1500))
    return {"level": "exploration", "exhaustive_parts": ["engine 'flags': all 256 upgrade bytes x {unary, stream, unknown, empty method} x {payload, empty body} x 4 header "
                                                          "encoders x 9 server I/O modes, one frame at a time from a raw peer"],
            "rule": E2E_RULE + "; engine 'flags' (enumerated): a raw peer sends one request frame per upgrade byte 0..255; a message with the Heartbeat flag invokes "
            "no handler, unary or stream, and delivers nothing to a stream handler; no frame is executed twice or answered twice with its own sequence number; a plain "
            "request is executed and answered exactly once; oracles of the other engines: handler ledger shows exactly one execution per successful or handler-failed call, none for unknown "
            "methods / undecodable arguments / unencodable requests / pings, none for an id nobody sent, arguments equal to what was sent; the wire tap shows exactly "
            "one response frame per unary request and none unsolicited; through Transport and Client (incl. server kills, engine 'pool') an id is never executed "
            "twice; on connections cut at enumerated byte offsets (engine 'cut') nothing is executed or answered twice and nothing undelivered is executed" + R_RULE,
            "jobs": jobs, "min_evaluations": 300, "min_distinct": 100, "parallel": 14, "assumptions": V_ASSUME + R_ASSUME}


def plan_C12(tier, seed, q):
    shards = 12
    ex = {"random": 0 if q else 3000}
    jobs = []
    for s in range(shards):
        jobs.append(Job("rt", "matrix", {"prop": "C12", "tier": tier, "seed": seed, "from": s, "to": 0, "stride": shards, "extra": ex}, timeout=900 if q else 3300))
    jobs += e2e_jobs("C12", tier, seed, "mix", 200, 3000)
    jobs += one("rt", "pollstream", "C12", tier, seed, timeout=1500 if q else 3300, extra={"n": 12 if q else 150})
    return {"level": "exploration",
            "rule": "configuration = (network in {tcp, unix, http, inproc} x {TLS, no TLS} + ws, header encoder, body codec, server poll/pipelining/direct-IO/"
                    "context-buffer/NoCopy(json only), client pipelining/direct-IO, server and client buffer size in {default,64,3000,4096,65536,70000,262144}, how "
                    "configured in {Options with constructors, Options with names, names plus conflicting constructors (name must win), Listen/Dial by "
                    "names}); quick = a seeded greedy pairwise-covering set (every pair of values of any two dimensions that the constraints allow, ~60 "
                    "configurations); thorough = that set + 3000 seeded random configurations; each runs the SAME seeded workload on real sockets (3 "
                    "callers x 2 connections x 8 operations incl. a 300 KB message in both directions, failing calls of five kinds, pings, one stream "
                    "per connection; ws: one caller, calls only) and every outcome is compared with the reference given by the pure reply function / the "
                    "server's error text; plus memnet scenarios (engine e2e, profile mix) whose unexpected failures count as C12; plus engine 'pollstream' in "
                    "its TLS-versus-plain mode: the same 'client with open streams and blocked handlers goes away' scenario (orderly close, close after an "
                    "undecodable frame, link cut in the middle of a frame / of a TLS record) is run over the plain network and over TLS against the same "
                    "kind of server, and the two must end the same way; the buffer sizes now also include 100, 3000 and 70000 (not pool size classes); "
                    "distinct = distinct configuration",
            "jobs": jobs, "min_evaluations": 40, "min_distinct": 40, "parallel": 12,
            "assumptions": R_ASSUME + ["ws under poll mode is excluded: it stalls inside hslam/websocket + hslam/netpoll (dependency) on a zero-length answer or a message larger than the buffer",
                                       "wss is not in the statement's set", "NoCopy is combined with the json body codec only, as the statement says"]}
