#!/bin/sh
# usage: check.sh <ID> <quick|thorough>   |   check.sh replay <path>
cd "$(dirname "$0")/.." || exit 2
if [ "$1" = "replay" ]; then exec python3 run/vdrive.py replay "$2"; fi
exec python3 run/vdrive.py check "$1" "${2:-quick}"
