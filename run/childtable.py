#!/usr/bin/env python3
"""Prints the 'children per check' table of DESIGN.md 12.1 from run/plans.py."""
import sys, os, collections
sys.path.insert(0, os.path.dirname(os.path.abspath(__file__)))
import plans

def cell(tier):
    out = {}
    for i in range(1, 21):
        pid = "C%02d" % i
        p = getattr(plans, "plan_" + pid)(tier, 1, tier == "quick")
        c = collections.Counter((j.engine, j.kind) for j in p["jobs"])
        out[pid] = ", ".join("%s[%s]x%d" % (e, k, n) for (e, k), n in sorted(c.items()))
    return out

q, t = cell("quick"), cell("thorough")
print("| property | quick | thorough |\n|---|---|---|")
for pid in sorted(q):
    print("| %s | %s | %s |" % (pid, q[pid], t[pid]))
