#!/bin/bash
# usage: benigntest.sh <patch-file> [checks...]
# Runs the quick checks (default: all twenty) against a scratch copy of /repo
# with a behaviour-preserving patch applied; every check must stay silent.
patch="$(cd "$(dirname "$1")" && pwd)/$(basename "$1")"; shift
scratch=$(mktemp -d /root/benignrepo-XXXXXX)
tag=$(python3 -c "import hashlib,sys;print(hashlib.sha1(sys.argv[1].encode()).hexdigest()[:8])" "$scratch")
trap 'rm -rf "$scratch" /verif/out/bin/C??-$tag /verif/out/altmod/*$tag* 2>/dev/null' EXIT
git -C /repo archive HEAD | tar -x -C "$scratch" || exit 2
(cd "$scratch" && git init -q . && git apply "$patch") || { echo "patch does not apply: $patch"; exit 2; }
checks="$@"
[ -z "$checks" ] && checks="C01 C02 C03 C04 C05 C06 C07 C08 C09 C10 C11 C12 C13 C14 C15 C16 C17 C18 C19 C20"
cd /verif
for c in $checks; do
  out=$(VERIF_REPO="$scratch" timeout 1200 ./run/check.sh $c quick 2>&1); rc=$?
  line=$(echo "$out" | grep -E '^SUMMARY' | cut -c1-160)
  if [ $rc -ne 0 ]; then echo "ALARM patch=$(basename $patch) check=$c rc=$rc :: $(echo "$out" | grep -E '^  what:|BUILD-FAILED' | head -2 | cut -c1-300)"; else echo "silent patch=$(basename $patch) check=$c $(echo "$line" | grep -o 'inconclusive=[0-9]*')"; fi
done
