#!/bin/bash
# usage: seedintake.sh <worktree> <seed-name> <property> "<needs>"
# Verifies a seeded change in its scratch worktree (suite passes with it, demo
# fails with it, demo passes without it) and stores it under /verif/seeded/.
wt="$1"; name="$2"; prop="$3"; needs="$4"
export GOFLAGS=-mod=mod GOPROXY=off GOSUMDB=off GOTOOLCHAIN=local
cd "$wt" || exit 2
dst=/verif/seeded/$name; mkdir -p $dst
git diff -- . ':(exclude)*_test.go' > $dst/patch.diff
[ -s $dst/patch.diff ] || { echo "empty patch"; exit 2; }
cp seed_demo_test.go $dst/seed_demo_test.go.txt || { echo "no demo"; exit 2; }
mv seed_demo_test.go /tmp/seed_demo_hold.go
suite=$(unshare -rn sh -c "ip link set lo up; go test -vet=off -count=1 ." 2>&1 | tail -1)
mv /tmp/seed_demo_hold.go seed_demo_test.go
fails=0; for i in 1 2 3; do go test -vet=off -count=1 -run TestSeedDemo . >/dev/null 2>&1 || fails=$((fails+1)); done
git stash push -q -- $(git diff --name-only -- . ':(exclude)*_test.go')
passes=0; for i in 1 2; do go test -vet=off -count=1 -run TestSeedDemo . >/dev/null 2>&1 && passes=$((passes+1)); done
git stash pop -q
python3 - "$dst" "$name" "$prop" "$needs" "$suite" "$fails" "$passes" <<'PY'
import json,sys
dst,name,prop,needs,suite,fails,passes=sys.argv[1:]
meta={"seed":name,"property":prop,"needs":needs,"origin":"independent sub-agent given only the property text and a scratch worktree",
      "confirmed":{"suite_with_change":suite,"demo_fails_with_change":"%s/3 runs"%fails,"demo_passes_without_change":"%s/2 runs"%passes},
      "ran":["go test -vet=off -count=1 . (demo moved away)","go test -run TestSeedDemo x3 with the change","git stash; go test -run TestSeedDemo x2; git stash pop"],
      "detection":{}}
json.dump(meta,open(dst+"/meta.json","w"),indent=1)
print(name,"suite:",suite,"| demo fails with change:",fails,"/3 | passes without:",passes,"/2")
PY
