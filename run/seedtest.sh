#!/bin/bash
# usage: seedtest.sh <seeded-dir> [tier] [checks...]
# Copies /repo (HEAD) to a scratch directory outside /repo and /verif, applies
# <seeded-dir>/patch.diff there, runs the given checks (default: the property
# named in meta.json) against the copy (VERIF_REPO) and removes the copy.
# /repo itself is not touched. Prints one line per check.
d="$(cd "$1" && pwd)"; tier="${2:-quick}"; shift; shift
scratch=$(mktemp -d /root/seedrepo-XXXXXX)
tag=$(python3 -c "import hashlib,sys;print(hashlib.sha1(sys.argv[1].encode()).hexdigest()[:8])" "$scratch")
trap 'rm -rf "$scratch" /verif/out/bin/C??-$tag /verif/out/altmod/*$tag* 2>/dev/null' EXIT
git -C /repo archive HEAD | tar -x -C "$scratch" || exit 2
(cd "$scratch" && git init -q . && git apply "$d/patch.diff") || { echo "patch does not apply"; exit 2; }
checks="$@"
if [ -z "$checks" ]; then checks=$(python3 -c "import json;print(json.load(open('$d/meta.json'))['property'])"); fi
cd /verif
for c in $checks; do
  out=$(VERIF_REPO="$scratch" ./run/check.sh $c $tier 2>&1); rc=$?
  echo "seed=$(basename $d) check=$c tier=$tier rc=$rc :: $(echo "$out" | grep -E '^  what:' | head -1 | cut -c1-260)"
done
