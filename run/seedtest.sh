#!/bin/bash
# usage: seedtest.sh <seeded-dir> [tier] [checks...]
# Applies <seeded-dir>/patch.diff to /repo, runs the given checks (default: the
# property named in meta.json) and restores /repo. Prints one line per check.
d="$(cd "$1" && pwd)"; tier="${2:-quick}"; shift; shift
cd /repo || exit 2
if ! git diff --quiet; then echo "/repo has uncommitted changes"; exit 2; fi
git apply "$d/patch.diff" || { echo "patch does not apply"; exit 2; }
trap 'cd /repo && git checkout -q -- . && git clean -fdq' EXIT
checks="$@"
if [ -z "$checks" ]; then checks=$(python3 -c "import json;print(json.load(open('$d/meta.json'))['property'])"); fi
cd /verif
for c in $checks; do
  out=$(./run/check.sh $c $tier 2>&1); rc=$?
  echo "seed=$(basename $d) check=$c tier=$tier rc=$rc :: $(echo "$out" | grep -E '^  what:' | head -1 | cut -c1-260)"
done
