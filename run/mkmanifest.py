#!/usr/bin/env python3
"""Regenerates /verif/MANIFEST.json from the table below (kept by hand)."""
import json
import os
import subprocess

VERIF = os.path.dirname(os.path.dirname(os.path.abspath(__file__)))

CHECKS = {
    "C01": dict(engine="e2e", cat="exploration", tech="runtime monitor: unique self-describing payloads + pure reply function, real stack in a synctest bubble over a fragmenting in-memory network",
                text="Every successful call of ~400 (quick) / ~6000 (thorough, plus a race-detector build) generated end-to-end scenarios - all call forms, 1-64 callers x 1-4 connections, handler delays that permute completion order, payloads 0..300 KB with boundary sizes, 4 header encoders x 4 body codecs x server/client modes x fragmentation down to 1 byte - is compared byte for byte with f(own args), and the handler ledger must show exactly those args. Held = held on the scenarios listed in the evidence.",
                note="trusted: go1.26.8 synctest scheduling, memnet as byte stream; payload contents are PRNG-generated, not enumerated"),
    "C02": dict(engine="sched", cat="fault_enumeration", tech="enumerated boundary-event scripts against a scripted peer at the socket.Messages level, quiescence (synctest.Wait) between events, completion counting on Done channels with room + recycled-call canary",
                text="All statically valid scripts of boundary events {write ok/fail, response, error response, duplicate, unknown seq, EOF, read error, Close} over N outstanding operations up to length L (quick: N=2 L<=5, N=3 L<=4, racing variants; thorough: N=2 L<=6, N=3 L<=5, N=1 L<=6, racing, race-detector build) are executed; each operation must be signalled exactly once and its Error must not change afterwards. Exhaustive for the stated (N, L) bounds; interleavings inside one event step are sampled.",
                note="trusted: scripted peer stands for socket+server; call forms/header encoders/client modes rotate over scripts rather than being multiplied"),
    "C03": dict(engine="cut", cat="fault_enumeration", tech="exhaustive cut-point enumeration (direction x byte offset x kind) of a scripted conversation on the real stack in virtual time; wire tap decides which responses were completely received",
                text="A fixed conversation is cut at every byte offset of either direction with reset / EOF / custom I/O error, and closed locally or by Server.Close at every step (quick: one mode combination completely + every 7th offset of the other eight; thorough: all nine completely + race build). At quiescence every operation must have returned, completely received responses must have succeeded, the rest must have failed (ErrShutdown when sent and orderly), later calls must fail at once.",
                note="exhaustive only for this conversation's offsets; virtual time makes 'hang' exact (blocked at quiescence), no wall-clock verdicts"),
    "C04": dict(engine="e2e+real+pool+cut", cat="exploration", tech="handler-ledger and wire-tap conservation monitors (executions per request id, responses per sequence number) under generated workloads, Transport kills and enumerated cuts",
                text="Every request id must be executed exactly once when its call succeeds or fails in the handler, never for unknown methods, undecodable arguments, unencodable requests or pings, never for an id nobody sent, with arguments equal to what was sent; the wire tap must show exactly one response per unary request and no unsolicited one (memnet scenarios 'mix' and 'errors', real tcp/unix/inproc sockets incl. poll-mode servers). Through Transport with server kills/restarts an id is never executed twice (no retry), and on connections cut at enumerated byte offsets nothing is executed or answered twice and nothing undelivered is executed.",
                note="request ids are unique self-describing payloads; handler shapes (4) x codecs (4) x server modes rotate by the seed"),
    "C05": dict(engine="e2e", cat="exploration", tech="runtime monitor: handler ledger order/overlap, wire tap order, arrival order on a shared Done channel, under generated pipelining workloads",
                text="Profile 'order' (300 / 4000 scenarios): pipelining server, one issuer per connection issuing 20..600 Go calls (25% failing in five different ways) on a shared Done channel over 1-6 connections; per connection the handler entry order, absence of overlap, wire response order and (with client pipelining) arrival order must equal issue order.",
                note="poll-mode servers are covered by the real-network engine (see C12/C10 notes); completions caused by teardown or by a client-side encode failure are counted, not judged"),
    "C06": dict(engine="e2e", cat="exploration", tech="runtime monitor: error text compared with handler text / text seen on the wire, re-read at end of scenario; reply sentinel; residue check",
                text="Profile 'errors' (400 / 6000 scenarios + mix): ~45% failing calls of five kinds mixed with succeeding ones in flight; the error text at return and at the end of the scenario must equal the server's text (taken from the wire for library-generated errors), the reply object must be untouched, neighbours must pass the C01 oracle and NumCalls() must return to 0.",
                note="expected texts of library-generated errors are taken from the wire tap, so rewording is not an alarm"),
    "C07": dict(engine="codec", cat="exploration", tech="generated-input runtime monitor with independent reference decoders/encoders",
                text="Every header value of the boundary lists (all varint boundaries of seq and of every length field, megabyte sizes, scratch-buffer variants) plus seeded random values is round-tripped through the library and cross-checked in both directions against reference codecs written from the documented formats; the default (nil encoder) path is driven through a real Conn and a real ServeCodec loop; all 256 upgrade bytes through hook VerifUpgrade.",
                note="trusted base: reference codecs in harness/wire; field contents are sampled, boundary lists are enumerated completely"),
    "C08": dict(engine="hostile", cat="fault_enumeration", tech="crash sentinel: supervisor/worker processes, every input logged before delivery to a real ServeCodec loop / real Conn; enumerated truncations, corruptions and upgrade bytes; probes on the same and on another connection",
                text="Per header encoder x I/O mode, for the server and for the client side: a corpus of valid frames, all 256 upgrade bytes x method kinds x body kinds, every truncation and every single-bit/boundary-value corruption of every corpus frame (thorough: all 255 other byte values for short frames), seeded random frames and multi-byte mutations, and bursts of queued requests followed at once by EOF/reset. The worker process must survive and keep serving well-formed probes; an input that kills it is pinpointed by replaying the last inputs one at a time and the enumeration continues behind it.",
                note="inputs are delivered as frames through socket.Messages (the raw length-prefix parser belongs to hslam/socket); poll-mode servers are exercised by the real-network engines"),
    "C13": dict(engine="pool", cat="exploration", tech="runtime monitor inside memnet's dial critical section (live client-side connections per address) + hook VerifPool snapshots every 250 virtual ms, under generated pool histories in virtual time",
                text="400 (quick) / 12000 (thorough, plus a race build) generated pool histories - limits from {(0,0),(-1,5),(1,1),(2,5),(3,1),(4,2),(8,8),(2,2),(5,3)}, 1-32 callers x 1-3 addresses, all call forms, pings, streams, long handlers, CloseIdleConnections, server kill/restart, hook-H1 delays that let housekeeping ticks land between getConn and the use of the connection: at every dial the live connections to the address must be within the effective MaxConnsPerHost and at every snapshot idle <= effective MaxIdleConnsPerHost.",
                note="hooks H1 (transport.gotConn) and H3 (VerifPool); virtual time makes the 1 s housekeeping tick free"),
    "C14": dict(engine="pool", cat="fault_enumeration", tech="kill/restart scripts against a real Transport in virtual time; handler ledgers per address; failure counting against the pooled-connection count from hook VerifPool",
                text="Class 'restart' (400 / 12000 histories): a sequential caller with call spacings from 10 ms to 6 s around KeepAlive/IdleConnTimeout, server killed at a PRNG-chosen call and restarted 1-4 calls later, then 2*max+2 further calls. Executions must appear only in ledgers of the requested address; calls while down must return ErrDial/ErrShutdown in zero virtual time; ErrShutdown failures after the kill must not exceed the connections pooled at the kill; no other error after the restart and the caller must succeed again. Plus the 'limits' histories for the address oracle.",
                note="spacings, kill points and limits are sampled from fixed lists by the seed"),
    "C15": dict(engine="pool", cat="exploration", tech="runtime monitor: wire tap locates the connection a request was written to, memnet records who closed it; live-connection counter at stated virtual instants",
                text="Class 'busy' (400 / 12000 histories) and 'limits': long calls and idle open streams spanning many housekeeping ticks, CloseIdleConnections fired repeatedly, hook-H1 delays. A call or stream to a never-killed server whose request was written to a connection must not fail because the client side closed that connection; KeepAlive + IdleConnTimeout + 2 ticks after the last use no connection may be open; none after Transport.Close.",
                note="liveness clauses restated as bounded progress in virtual time; a connection closed inside the H1 window before the request was written is outside the statement and only counted"),
    "C09": dict(engine="e2e", cat="exploration", tech="runtime monitor: unique (stream, direction, index) messages, sequence equality on both ends, blocked-reader detection at quiescence",
                text="Profile 'streams' (400 / 6000 scenarios + mix): 1-16 streams per connection, handlers pushing 0/1/5 messages right after open, client writing or reading first, echo/sink/burst steps with sizes 22 B..100 KB, unary calls and pings alongside. Each end must read exactly the sequence the other wrote while the stream is open; a lost message shows as a reader blocked at quiescence.",
                note="messages still queued when a stream is closed may be discarded by design; equality is required while open only"),
    "C10": dict(engine="sclose+cut+pollstream", cat="fault_enumeration", tech="blocked-operation detection at quiescence in virtual time for stream close / connection end events, plus a responsiveness-relative real-time monitor for poll-mode servers",
                text="1600 / 40000 scenarios with 1-5 sibling streams whose readers are blocked on both ends (messages optionally in flight), then one of {client closes one stream, Conn.Close, cut of either direction a few bytes ahead (reset/EOF/custom), Server.Close}: every affected blocked ReadMessage must have returned ErrStreamShutdown at quiescence, the handler must have returned, later Read/WriteMessage must return ErrStreamShutdown in zero virtual time, siblings and unary calls must be undisturbed when one stream is closed. The cut engine's byte-offset enumeration judges the stream operations of its conversation. Poll-mode (and ordinary) servers on real tcp/unix sockets: after the client disconnects the handlers must return; a handler still blocked after 8 s is a violation only if >= 20 complete dial+call probes through the same server succeeded meanwhile, else inconclusive.",
                note="a WriteMessage racing with the shutdown may still return nil (the stream API does not surface write errors); only later writes must fail"),
    "C12": dict(engine="matrix", cat="exploration", tech="configuration-matrix runtime monitor: pairwise-covering + random configurations of real sockets, same seeded workload, outcomes compared with the pure reference function",
                text="A greedy pairwise-covering set (~60 configurations; every allowed pair of values of any two of 13 dimensions: network x TLS, header encoder, body codec, five server flags, two client flags, server/client buffer sizes, four ways of configuring both ends) and in the thorough tier 3000 further seeded random configurations each run the same workload (3 callers x 2 connections, a 300 KB message each way, failing calls of five kinds, pings, a stream) on real tcp/unix/http/inproc(+TLS)/ws sockets; every reply, error text and execution count must equal the reference (the pure reply function). Memnet 'mix' scenarios add to it.",
                note="ws under poll mode is excluded (stalls inside hslam/websocket + netpoll, a dependency); the full product (~10^6) is sampled, pair coverage is measured and reported"),
    "C11": dict(engine="e2e", cat="exploration", tech="retention monitor: SHA-256 at hand-over vs at end, canary-filled caller buffers, forced GC to recycle pools",
                text="Profile 'retain' (240 / 3000 scenarios + mix): with aliasing codecs handlers keep argument slices, callers keep replies (fresh and in context buffers) and both ends keep stream messages while thousands of further messages flow and GC runs every 3 virtual ms; everything is re-hashed at the end and canary bytes beyond the encoded reply must be intact.",
                note="NoCopy modes and the server's shared context scratch buffer are documented as borrowed and excluded"),
    "C16": dict(engine="policy", cat="exploration", tech="offline linearizability checking (porcupine) of recorded Update/route histories of a real Client over an instrumented RoundTripper in virtual time",
                text="1500 (quick) / 40000 (thorough, plus a race build) short histories: 1-7 concurrent callers using every call form (each call carries a unique token the fake RoundTripper sees), 3-10 Update calls with overlapping, duplicate and empty target strings, Director changes, scripted health flapping, all three policies. Each history is checked with porcupine against the sequential model 'a route returns a member of the most recently supplied target set'; routes to a Director address must coincide with a Director invocation that returned it.",
                note="call stamp = API invocation, return stamp = arrival at the RoundTripper, one logical clock; porcupine timeout (60 s) would be reported as inconclusive"),
    "C17": dict(engine="policy", cat="exploration", tech="shadow-model runtime monitor: exact EWMA/probe/argmin model in virtual time compared with observed routes and hook VerifLatencies after every call",
                text="900 / 30000 single-caller sequences of 120-220 calls over 2-8 live targets, policies RoundRobin/Random/LeastTime, Alpha in {0.1,0.5,0.8,0.99}, Tick in {10ms,100ms,1s}, constant/swapped/drifting latency profiles, optional refusing target: RoundRobin windows of n calls must hit n distinct targets, Random only live targets, every non-probe LeastTime call a minimal-estimate target, probes cyclic and at most one per Tick, estimates equal to the documented moving average after every call, refusing target reset to the maximum.",
                note="hook H2 (VerifLatencies); call spacing is co-prime with Tick so that no call lands exactly on a probe boundary (the strictness of that comparison is not specified)"),
    "C18": dict(engine="policy", cat="fault_enumeration", tech="scripted up/down histories for a real Client over an instrumented RoundTripper, exact virtual-time comparison of every caller's return instant and error identity; hook H1 in the lost-wake-up window",
                text="1600 / 40000 histories over variants {waiters, close, fallback, failover} x DialTimeout {50ms,300ms,5s} x 1-64 concurrent callers of all six call forms x optional H1 delay before waiter registration: released waiters must have been routed within one detector tick + ping latency of a target coming up, waiters present at Close return ErrShutdown at that instant, the rest return ErrTimeout exactly at start + DialTimeout, nobody waits longer, calls after Close take zero virtual time, a refusing target stops receiving calls within 2 ticks and is used again after recovery.",
                note="the detection bound is 2 ticks because the statement only says 'bounded'; the single-believed-live-target fast path is driven but not judged"),
    "C20": dict(engine="lifecycle", cat="exploration", tech="leak monitor at quiescence in virtual time: goroutine dump diff restricted to library frames, memnet open-end counters, Close return values",
                text="600 / 20000 histories: usage before Close (idle, gated in-flight calls, open streams with blocked readers, Transport pools, Client with routed or waiting callers, reset peers, abandoned context calls) x nine I/O mode combinations x every order of closing connections/Transport/Client/Server, each Close twice; afterwards no new goroutine with hslam/rpc|scheduler|writer|socket frames, no open connection end on either side, Listen returned, second Conn.Close == ErrShutdown and the other second Closes == nil.",
                note="poll servers are excluded by the statement; goroutines are compared against a baseline taken at the start of each scenario"),
    "C19": dict(engine="sched+e2e", cat="exploration", tech="enumerated event scripts with cancel events against a scripted peer + generated deadline workloads on the real server, exact virtual-time comparison",
                text="All scripts over {write ok/fail, response, error, duplicate, unknown, EOF, read error, Close, cancel i} for 2-3 CallWithContext operations (N=2 L<=5/6, N=3 L<=4/5, racing variants): after a cancel the call must have returned at quiescence, siblings must complete once with f(args). Plus profile 'ctx': deadlines shorter than handler delays must return exactly at the deadline (virtual time) with the context's error; context buffers must be used iff the encoded reply fits and canaries must be intact.",
                note="cancellation while the request write itself is blocked is outside the property and not driven"),
}

NOT_YET = "check under construction in this session (engine not yet registered); see DESIGN.md section 7"


def main():
    props = [json.loads(l) for l in open(os.path.join(VERIF, "properties.jsonl"))]
    ids = [p["id"] for p in props]
    hooks = subprocess.run(["git", "-C", "/repo", "log", "--format=%h %s"], stdout=subprocess.PIPE, text=True).stdout.splitlines()
    hook_commits = [l.split()[0] for l in hooks if l.split(" ", 1)[1].startswith("verif hooks")]
    checks = []
    for pid in ids:
        c = CHECKS.get(pid)
        if not c:
            continue
        checks.append({
            "property_id": pid,
            "quick_cmd": "./run/check.sh %s quick" % pid,
            "thorough_cmd": "./run/check.sh %s thorough" % pid,
            "evidence_file": "/verif/evidence/%s.json" % pid,
            "replay_cmd_template": "./run/check.sh replay {path}",
            "engine": c["engine"],
            "level_claimed": {"category": c["cat"], "text": c["text"], "design_ref": "DESIGN.md section 7, " + pid},
            "level_note": c["note"],
            "technique": c["tech"],
        })
    m = {
        "version": 1,
        "setup_cmd": "python3 run/vdrive.py build race",
        "hooks": {
            "guard": "verif",
            "enable": "go build/test -tags verif; the harness module (go.mod: replace github.com/hslam/rpc => /repo) is rebuilt from /repo's working tree by every check",
            "baseline_off_cmd": "cd /repo && go test -vet=off -count=1 -timeout 25m ./...",
            "source_commits": hook_commits,
            "add_only": True,
        },
        "engines": [
            {"name": "codec", "path": "harness/rt/codec.go", "serves_properties": ["C07"], "kind_free_text": "generated-input monitor with reference codecs (real time, no concurrency)"},
            {"name": "e2e", "path": "harness/scen/e2e.go", "serves_properties": ["C01", "C04", "C05", "C06", "C09", "C11", "C19"], "kind_free_text": "generated end-to-end scenarios on the real stack inside a synctest bubble over memnet, with call/handler/wire/retention monitors"},
            {"name": "sched", "path": "harness/vt/sched_test.go", "serves_properties": ["C02", "C19"], "kind_free_text": "scripted peer at the Messages level, enumerated boundary-event scripts, quiescence between events"},
            {"name": "hostile", "path": "harness/rt/hostile.go", "serves_properties": ["C08"], "kind_free_text": "crash sentinel with supervisor/worker processes and enumerated hostile frames"},
            {"name": "pool", "path": "harness/vt/pool_test.go", "serves_properties": ["C13", "C14", "C15"], "kind_free_text": "real Transport over memnet in virtual time with housekeeping, kills, hook-H1 delays"},
            {"name": "policy", "path": "harness/vt/policy_test.go", "serves_properties": ["C16", "C17", "C18"], "kind_free_text": "real Client over a fake RoundTripper with scripted health/latency in virtual time; porcupine; shadow model"},
            {"name": "lifecycle", "path": "harness/vt/lifecycle_test.go", "serves_properties": ["C20"], "kind_free_text": "usage x close-order histories with goroutine/connection leak monitor"},
            {"name": "sclose", "path": "harness/vt/sclose_test.go", "serves_properties": ["C10"], "kind_free_text": "stream close / connection end scenarios with blocked readers, virtual time"},
            {"name": "real", "path": "harness/rt/real.go", "serves_properties": ["C01", "C04", "C05", "C09", "C10", "C11"], "kind_free_text": "the e2e scenarios on real tcp/unix/inproc sockets incl. poll-mode servers; pollstream for C10"},
            {"name": "matrix", "path": "harness/rt/matrix.go", "serves_properties": ["C12"], "kind_free_text": "pairwise-covering + random configuration matrix on real sockets"},
            {"name": "cut", "path": "harness/vt/cut_test.go", "serves_properties": ["C03", "C10"], "kind_free_text": "cut-point enumeration of a scripted conversation in virtual time"},
        ],
        "checks": checks,
        "not_applicable": [{"property_id": pid, "reason": NOT_YET} for pid in ids if pid not in CHECKS],
        "notes": "Runtime monitoring only (DESIGN.md). Every check exits 0/1 as specified, 3 when it observed too little to count as evidence; children are wrapped in a real-time watchdog whose firing is reported as INCONCLUSIVE, never as a violation.",
    }
    with open(os.path.join(VERIF, "MANIFEST.json"), "w") as f:
        json.dump(m, f, indent=1)
        f.write("\n")
    print("claimed:", [c["property_id"] for c in checks])


if __name__ == "__main__":
    main()
