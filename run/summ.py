import sys,json,collections
c=collections.Counter(); ex={}; cases=0; inc=0
for l in open(sys.argv[1], errors='replace'):
    try: r=json.loads(l)
    except: continue
    if r.get('t')!='case': continue
    if r.get('verdict')=='violated':
        c[(r.get('prop'),r.get('fsig'))]+=1; ex.setdefault((r.get('prop'),r.get('fsig')),(r.get('case'),r.get('what')))
    else:
        cases+=1
        if r.get('verdict')=='inconclusive': inc+=1; print('INC',r.get('case'),r.get('what'))
print('cases',cases,'inconclusive',inc)
for k,v in c.most_common(): print(v,k,'::',ex[k][0],ex[k][1][:400])
