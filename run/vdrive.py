#!/usr/bin/env python3
"""Driver for the runtime-monitoring checks of hslam/rpc (see /verif/DESIGN.md).

usage: vdrive.py check <ID> <quick|thorough>
       vdrive.py replay <path>
       vdrive.py build [race]

Builds the engine binaries from /repo's current working tree (tag `verif`),
runs the children of the property's plan in parallel (one synctest bubble per
child), aggregates their result lines, applies /verif/known_findings.json,
writes /verif/evidence/<ID>.json and prints the verdict lines.
"""
import concurrent.futures as cf
import hashlib
import json
import os
import re
import shutil
import subprocess
import sys
import time

VERIF = os.path.dirname(os.path.dirname(os.path.abspath(__file__)))
HARNESS = os.path.join(VERIF, "harness")
OUT = os.path.join(VERIF, "out")
sys.path.insert(0, os.path.join(VERIF, "run"))

ENV = dict(os.environ)
ENV.update({
    "GOFLAGS": "-mod=mod", "GOPROXY": "off", "GOSUMDB": "off", "GOTOOLCHAIN": "local",
    "CGO_ENABLED": ENV.get("CGO_ENABLED", "1"),
})

GO_V = "go1.26.8"   # virtual-time engines (testing/synctest)
GO_R = "go"         # real-time engines (the repository's own toolchain)


def log(*a):
    print(*a, flush=True)


# ------------------------------------------------------------------ build ---

def modfile_args():
    """VERIF_REPO=<dir> builds against a copy of the repository instead of /repo
    (used for seeded-change tests and background sweeps); the registered checks
    never set it."""
    repo = os.environ.get("VERIF_REPO")
    if not repo:
        return []
    repo = os.path.abspath(repo)
    tag = hashlib.sha1(repo.encode()).hexdigest()[:10]
    d = os.path.join(OUT, "altmod")
    os.makedirs(d, exist_ok=True)
    mod = os.path.join(d, "go-%s.mod" % tag)
    with open(os.path.join(HARNESS, "go.mod")) as f:
        text = f.read().replace("=> /repo", "=> " + repo)
    with open(mod, "w") as f:
        f.write(text)
    shutil.copyfile(os.path.join(HARNESS, "go.sum"), os.path.join(d, "go-%s.sum" % tag))
    return ["-modfile=" + mod]


def build(kind, dest):
    """kind: vt | vt-race | rt | rt-race. Returns (path, seconds)."""
    t0 = time.time()
    os.makedirs(os.path.dirname(dest), exist_ok=True)
    race = ["-race"] if kind.endswith("-race") else []
    mf = modfile_args()
    if kind.startswith("vt"):
        cmd = [GO_V, "test", "-c", "-tags", "verif"] + mf + race + ["-o", dest, "./vt"]
    else:
        cmd = [GO_R, "build", "-tags", "verif"] + mf + race + ["-o", dest, "./rt"]
    for attempt in range(3):
        p = subprocess.run(cmd, cwd=HARNESS, env=ENV, stdout=subprocess.PIPE, stderr=subprocess.STDOUT, text=True)
        if p.returncode == 0:
            break
        # a build can fail transiently on a heavily loaded machine (linker killed, cache contention)
        log("BUILD-RETRY kind=%s attempt=%d\n%s" % (kind, attempt + 1, p.stdout[-1500:]))
        time.sleep(2 + 3 * attempt)
    if p.returncode != 0:
        log("BUILD-FAILED kind=%s\n%s" % (kind, p.stdout[-4000:]))
        sys.exit(2)
    return dest, time.time() - t0


# ------------------------------------------------------------------- jobs ---

class Job:
    def __init__(self, kind, engine, args, timeout=600, env=None):
        self.kind = kind          # binary kind
        self.engine = engine
        self.args = args          # dict -> VT_ARGS
        self.timeout = timeout
        self.env = env or {}
        self.rc = None
        self.results = []
        self.stderr_path = None
        self.out_path = None
        self.wall = 0.0
        self.timed_out = False


def run_job(job, bins, workdir, idx):
    base = os.path.join(workdir, "job%03d-%s" % (idx, job.engine))
    job.out_path = base + ".jsonl"
    job.stderr_path = base + ".log"
    for p in (job.out_path, job.stderr_path):
        if os.path.exists(p):
            os.remove(p)
    env = dict(ENV)
    env.update(job.env)
    args = dict(job.args)
    args["engine"] = job.engine
    env["VT_ARGS"] = json.dumps(args)
    env["VT_OUT"] = job.out_path
    env["VT_WORK"] = base + ".d"
    if job.kind.endswith("-race"):
        env["GORACE"] = "halt_on_error=0 log_path=%s.race" % base
    binp = bins[job.kind]
    if job.kind.startswith("vt"):
        cmd = [binp, "-test.run", "^TestBubble$", "-test.timeout", "0"]
    else:
        cmd = [binp]
    cmd = ["timeout", "-s", "QUIT", "-k", "10", str(job.timeout)] + cmd
    t0 = time.time()
    with open(job.stderr_path, "wb") as errf:
        p = subprocess.run(cmd, cwd=workdir, env=env, stdout=errf, stderr=subprocess.STDOUT)
    job.wall = time.time() - t0
    job.rc = p.returncode
    job.timed_out = p.returncode in (124, 137) or (p.returncode == 2 and job.wall >= job.timeout - 1)
    if os.path.exists(job.out_path):
        with open(job.out_path, "r", errors="replace") as f:
            for line in f:
                line = line.strip()
                if not line:
                    continue
                try:
                    job.results.append(json.loads(line))
                except Exception:
                    job.results.append({"t": "note", "what": "unparsable result line: " + line[:200]})
    return job


def stderr_excerpt(path, n=60):
    try:
        with open(path, "r", errors="replace") as f:
            lines = f.read().splitlines()
    except Exception:
        return ""
    # find first panic / fatal error
    for i, l in enumerate(lines):
        if l.startswith("panic:") or l.startswith("fatal error:") or "SIGQUIT" in l:
            return "\n".join(lines[max(0, i - 3):i + n])
    return "\n".join(lines[-n:])


def crash_signature(text):
    """A stable signature for a crash: message + innermost hslam frames."""
    msg = ""
    frames = []
    for l in text.splitlines():
        if not msg and (l.startswith("panic:") or l.startswith("fatal error:")):
            msg = re.sub(r"0x[0-9a-f]+", "0x?", l)
            msg = re.sub(r"\d+", "N", msg)
        m = re.match(r"^(github\.com/hslam/[\w./*()]+)\(", l)
        if m and len(frames) < 3:
            frames.append(m.group(1))
    return (msg + " @ " + " < ".join(frames)).strip()


# ---------------------------------------------------------- known findings --

def load_known():
    p = os.path.join(VERIF, "known_findings.json")
    if not os.path.exists(p):
        return []
    with open(p) as f:
        return json.load(f).get("findings", [])


def match_known(known, prop, fsig):
    for k in known:
        if k.get("status") != "open" or k.get("property") != prop:
            continue
        if fsig and k.get("signature") == fsig:
            return k
    return None


# ------------------------------------------------------------------ check ---

def check(prop, tier):
    import plans
    seed = int(os.environ.get("VERIF_SEED", "1") or "1")
    tier = os.environ.get("VERIF_TIER", tier) or tier
    if tier not in ("quick", "thorough"):
        tier = "quick"
    t0 = time.time()
    plan = plans.plan(prop, tier, seed)
    if plan is None:
        log("no plan for property", prop)
        return 2
    tagdir = ("-" + hashlib.sha1(os.environ["VERIF_REPO"].encode()).hexdigest()[:8]) if os.environ.get("VERIF_REPO") else ""
    workdir = os.path.join(OUT, "work", prop + tagdir)
    shutil.rmtree(workdir, ignore_errors=True)
    os.makedirs(workdir, exist_ok=True)
    kinds = sorted(set(j.kind for j in plan["jobs"]))
    bins = {}
    tb = time.time()
    with cf.ThreadPoolExecutor(max_workers=4) as ex:
        futs = {k: ex.submit(build, k, os.path.join(OUT, "bin", prop + tagdir, k)) for k in kinds}
        for k, f in futs.items():
            bins[k] = f.result()[0]
    build_s = time.time() - tb
    par = int(os.environ.get("VERIF_PAR", "0") or 0) or plan.get("parallel", 12)
    jobs = plan["jobs"]
    with cf.ThreadPoolExecutor(max_workers=par) as ex:
        futs = [ex.submit(run_job, j, bins, workdir, i) for i, j in enumerate(jobs)]
        for f in futs:
            f.result()

    known = load_known()
    evaluations = 0
    sigs = set()
    violations = []   # dicts
    known_hits = {}
    inconclusive = []
    stats = {}
    samples = []
    notes = []
    engines_seen = {}
    for j in jobs:
        done = False
        last_progress = None
        for r in j.results:
            t = r.get("t")
            if t == "progress":
                last_progress = r.get("case")
            elif t == "done":
                done = True
            elif t == "note":
                if len(notes) < 40:
                    notes.append("%s: %s" % (j.engine, r.get("what", "")))
            elif t == "case":
                evaluations += int(r.get("n") or 1)
                engines_seen[j.engine] = engines_seen.get(j.engine, 0) + int(r.get("n") or 1)
                if r.get("nontrivial") and r.get("sig"):
                    sigs.add(j.engine + ":" + r["sig"])
                for sg in (r.get("sigs") or []):
                    sigs.add(j.engine + ":" + sg)
                for k, v in (r.get("stats") or {}).items():
                    if k.startswith("max_"):
                        stats[k] = max(stats.get(k, 0), v)
                    else:
                        stats[k] = stats.get(k, 0) + v
                if r.get("sample") is not None and len(samples) < plan.get("max_samples", 6):
                    samples.append({"engine": j.engine, "case": r.get("case"), "sample": r["sample"]})
                v = r.get("verdict")
                if v == "violated":
                    r["_job"] = j
                    violations.append(r)
                elif v == "inconclusive":
                    inconclusive.append(r)
        if not done:
            text = stderr_excerpt(j.stderr_path)
            crashed = ("panic:" in text or "fatal error:" in text) and not j.timed_out
            if j.timed_out or (not crashed and j.rc not in (0,)):
                if j.timed_out:
                    inconclusive.append({"engine": j.engine, "case": last_progress,
                                         "what": "real-time watchdog fired after %.0fs (rc=%s); last case %s" % (j.wall, j.rc, last_progress),
                                         "stderr": j.stderr_path})
                else:
                    # ended abnormally without a Go crash report (killed from outside): no verdict
                    inconclusive.append({"engine": j.engine, "case": last_progress,
                                         "what": "child ended with rc=%s without a crash report; last case %s" % (j.rc, last_progress),
                                         "stderr": j.stderr_path})
            if crashed:
                sig = crash_signature(text)
                violations.append({"engine": j.engine, "case": last_progress, "prop": prop,
                                   "what": "child process died (rc=%s) during case %s: %s" % (j.rc, last_progress, sig),
                                   "fsig": "crash:" + sig, "witness": {"stderr_excerpt": text[:6000], "args": j.args},
                                   "_job": j, "crash": True})
        # race logs
        racefiles = [f for f in os.listdir(workdir) if f.startswith(os.path.basename(j.out_path)[:-6] + ".race")]
        if racefiles:
            n = 0
            for rf in racefiles:
                with open(os.path.join(workdir, rf), "r", errors="replace") as f:
                    n += f.read().count("WARNING: DATA RACE")
            stats["race_reports_total"] = stats.get("race_reports_total", 0) + n

    # post-processing hook of the plan (e.g. race-log classification)
    post = plan.get("post")
    if post:
        post(plan, jobs, workdir, violations, inconclusive, stats, notes)

    # known findings / violation lines
    replay_dir = os.path.join(OUT, "replay")
    os.makedirs(replay_dir, exist_ok=True)
    real = []
    for n, v in enumerate(violations):
        vprop = v.get("prop") or prop
        k = match_known(known, vprop, v.get("fsig"))
        if k is not None:
            known_hits.setdefault(k["signature"], [k, 0])[1] += 1
            continue
        real.append(v)
    out_lines = []
    for sig, (k, cnt) in sorted(known_hits.items()):
        out_lines.append("KNOWN-FINDING: property=%s %s (signature %s, seen %d times)" % (k["property"], k.get("what", ""), sig, cnt))
    seen_fsig = {}
    nrep = 0
    for v in real:
        fs = v.get("fsig") or v.get("what", "")[:80]
        seen_fsig[fs] = seen_fsig.get(fs, 0) + 1
        if seen_fsig[fs] > 3 or nrep >= 25:
            continue
        nrep += 1
        j = v.get("_job")
        rp = os.path.join(replay_dir, "%s-%d-%d.json" % (prop, seed, nrep))
        doc = {"property": v.get("prop") or prop, "engine": v.get("engine"), "case": v.get("case"),
               "what": v.get("what"), "fsig": v.get("fsig"), "witness": v.get("witness"),
               "tier": tier, "seed": seed,
               "job": {"kind": j.kind, "engine": j.engine, "args": j.args, "env": j.env} if j else None,
               "stderr": j.stderr_path if j else None}
        with open(rp, "w") as f:
            json.dump(doc, f, indent=1, default=str)
        out_lines.append("VIOLATION property=%s replay=%s" % (prop, rp))
        out_lines.append("  what: %s" % (v.get("what") or "")[:600])
    for r in inconclusive[:10]:
        out_lines.append("INCONCLUSIVE property=%s engine=%s case=%s reason=%s" % (prop, r.get("engine"), r.get("case"), (r.get("what") or "")[:300]))

    wall = time.time() - t0
    level = plan["level"]
    cov = {
        "evaluations": evaluations,
        "distinct_nontrivial": len(sigs),
        "rule": plan["rule"],
        "samples": samples if samples else [{"note": "no sample emitted"}],
        "per_engine_cases": engines_seen,
        "observed": stats,
        "inconclusive": len(inconclusive),
        "known_finding_hits": {s: c for s, (k, c) in known_hits.items()},
        "children": len(jobs),
        "build_s": round(build_s, 1),
        "exhaustive": bool(plan.get("exhaustive", False)),
    }
    if plan.get("exhaustive_parts"):
        cov["exhaustive_parts"] = plan["exhaustive_parts"]
    if plan.get("explanation"):
        cov["explanation"] = plan["explanation"]
    if notes:
        cov["notes"] = notes[:40]
    ev = {
        "property_id": prop, "tier": tier, "seed": seed, "level": level,
        "coverage": cov,
        "assumptions": plan.get("assumptions", []),
        "wall_s": round(wall, 1),
        "violations": len(real),
    }
    evdir = os.path.join(VERIF, "evidence") if not os.environ.get("VERIF_REPO") else os.path.join(workdir, "evidence")
    os.makedirs(evdir, exist_ok=True)
    with open(os.path.join(evdir, prop + ".json"), "w") as f:
        json.dump(ev, f, indent=1, default=str)
        f.write("\n")

    for l in out_lines:
        log(l)
    minimum = plan.get("min_evaluations", 1)
    log("SUMMARY property=%s tier=%s seed=%d evaluations=%d distinct_nontrivial=%d violations=%d known=%d inconclusive=%d wall=%.1fs build=%.1fs" % (
        prop, tier, seed, evaluations, len(sigs), len(real), sum(c for _, c in known_hits.values()), len(inconclusive), wall, build_s))
    for k in sorted(stats):
        log("  observed %s=%d" % (k, stats[k]))
    if real:
        return 1
    if evaluations < minimum or len(sigs) < plan.get("min_distinct", 2):
        log("NO-EVIDENCE property=%s: observed %d cases / %d distinct non-trivial, below the minimum (%d / %d)" % (
            prop, evaluations, len(sigs), minimum, plan.get("min_distinct", 2)))
        return 3
    return 0


def replay(path):
    with open(path) as f:
        doc = json.load(f)
    j = doc.get("job")
    if not j:
        log("replay file has no job")
        return 2
    prop = doc["property"]
    workdir = os.path.join(OUT, "work", "replay-" + prop)
    shutil.rmtree(workdir, ignore_errors=True)
    os.makedirs(workdir, exist_ok=True)
    binp, _ = build(j["kind"], os.path.join(OUT, "bin", "replay", j["kind"]))
    args = dict(j["args"])
    if doc.get("case"):
        args["cases"] = [doc["case"]]
    job = Job(j["kind"], j["engine"], args, env=j.get("env") or {})
    run_job(job, {j["kind"]: binp}, workdir, 0)
    bad = [r for r in job.results if r.get("t") == "case" and r.get("verdict") == "violated"]
    done = any(r.get("t") == "done" for r in job.results)
    for r in bad:
        log("REPRODUCED property=%s case=%s what=%s" % (prop, r.get("case"), (r.get("what") or "")[:400]))
    if not done:
        log("REPRODUCED property=%s child died: %s" % (prop, crash_signature(stderr_excerpt(job.stderr_path))))
        return 1
    if bad:
        return 1
    log("NOT-REPRODUCED property=%s case=%s" % (prop, doc.get("case")))
    return 0


def main():
    if len(sys.argv) >= 3 and sys.argv[1] == "check":
        tier = sys.argv[3] if len(sys.argv) > 3 else "quick"
        sys.exit(check(sys.argv[2], tier))
    if len(sys.argv) >= 3 and sys.argv[1] == "replay":
        sys.exit(replay(sys.argv[2]))
    if len(sys.argv) >= 2 and sys.argv[1] == "build":
        kinds = ["vt", "rt"] + (["vt-race", "rt-race"] if "race" in sys.argv[2:] else [])
        for k in kinds:
            p, s = build(k, os.path.join(OUT, "bin", "setup", k))
            log("built %s in %.1fs" % (k, s))
        sys.exit(0)
    log(__doc__)
    sys.exit(2)


if __name__ == "__main__":
    main()
