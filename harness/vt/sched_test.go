//go:build go1.25

package vt

import (
	"bytes"
	"context"
	"encoding/json"
	"errors"
	"fmt"
	"io"
	"strings"
	"sync"
	"sync/atomic"
	"testing/synctest"
	"time"

	"github.com/hslam/rpc"
	"verif/harness/memnet"
	"verif/harness/mon"
	"verif/harness/rig"
	"verif/harness/svc"
	"verif/harness/wire"
)

// Engine "sched": a scripted peer plays the server side of one connection at
// the Messages level and releases one boundary event at a time, with
// synctest.Wait() (quiescence) between events. It enumerates every valid
// event script up to a bound and decides C02 (exactly-once completion), the
// ordering clauses of C19, and the "no caller hangs" part of C03.

func init() { engines["sched"] = schedEngine }

type schedExtra struct {
	N      int  `json:"n"`      // operations per script
	L      int  `json:"l"`      // max events per script
	Race   int  `json:"race"`   // fire the last two events concurrently, this many repetitions (0 = off)
	Sample int  `json:"sample"` // if > 0, run only every Sample-th script (offset by seed)
	Ctx    bool `json:"ctx"`    // C19 mode: every op is a CallWithContext and Cancel events are included
}

var errInjectedWrite = errors.New("injected write failure")
var errInjectedRead = errors.New("injected read failure")

// op forms of the sched engine
var schedForms = []string{rig.FormGo, rig.FormRoundTrip, rig.FormCall, rig.FormCtx, "Ping", rig.FormCtxBuf}

type sop struct {
	idx      int
	form     string
	spec     svc.Spec
	args     []byte
	reply    []byte
	done     chan *rpc.Call
	call     *rpc.Call // known for RoundTrip at once, for Go at first completion
	cancel   context.CancelFunc
	returned int32 // blocking forms: the call returned
	retErr   error
	retAt    time.Duration
	retReply []byte
	// async forms
	completions int
	firstErr    error
	firstText   string
	firstSeen   bool
	canaried    bool
	cancelAt    time.Duration
	cancelled   bool
	// the context ended while the request's own write was still blocked
	cancelWhileWriting bool
}

func (o *sop) blocking() bool { return o.form != rig.FormGo && o.form != rig.FormRoundTrip }

func (o *sop) drain() {
	for {
		select {
		case c := <-o.done:
			o.completions++
			if !o.firstSeen {
				o.firstSeen = true
				o.call = c
				o.firstErr = c.Error
				if c.Error != nil {
					o.firstText = c.Error.Error()
				}
				if c.Error == nil {
					o.retReply = append([]byte(nil), o.reply...)
				}
			}
		default:
			return
		}
	}
}

type canary struct {
	spec     svc.Spec
	args     []byte
	reply    []byte
	returned int32
	err      error
}

// event alphabet
type sev struct {
	kind string // wok wfail resp err dup cancel unknown eof readerr close
	i    int    // op index (0-based), -1 for global events
}

func (e sev) String() string {
	if e.i < 0 {
		return e.kind
	}
	return fmt.Sprintf("%s%d", e.kind, e.i+1)
}

func parseSev(s string) (sev, bool) {
	for _, k := range []string{"unknown", "eof", "readerr", "close"} {
		if s == k {
			return sev{k, -1}, true
		}
	}
	for _, k := range []string{"wok", "wfail", "resp", "err", "dup", "cancel"} {
		if strings.HasPrefix(s, k) {
			var i int
			if _, err := fmt.Sscanf(s[len(k):], "%d", &i); err == nil && i >= 1 {
				return sev{k, i - 1}, true
			}
		}
	}
	return sev{}, false
}

// enumScripts lists every statically valid script over n ops up to length l.
func enumScripts(n, l int, ctx bool) [][]sev {
	var alpha []sev
	for i := 0; i < n; i++ {
		for _, k := range []string{"wok", "wfail", "resp", "err", "dup"} {
			alpha = append(alpha, sev{k, i})
		}
		if ctx {
			alpha = append(alpha, sev{"cancel", i})
		}
	}
	for _, k := range []string{"unknown", "eof", "readerr", "close"} {
		alpha = append(alpha, sev{k, -1})
	}
	var out [][]sev
	var cur []sev
	var rec func()
	valid := func(e sev) bool {
		terminal := ""
		wrote := false
		resp := false
		dup := false
		canc := false
		unk := false
		for _, p := range cur {
			if p.i < 0 {
				if p.kind == "unknown" {
					unk = true
				} else {
					terminal = p.kind
				}
				continue
			}
			if p.i != e.i {
				continue
			}
			switch p.kind {
			case "wok", "wfail":
				wrote = true
			case "resp", "err":
				resp = true
			case "dup":
				dup = true
			case "cancel":
				canc = true
			}
		}
		if terminal == "close" {
			return false
		}
		if terminal != "" && e.kind != "wok" && e.kind != "wfail" && e.kind != "cancel" {
			return false
		}
		switch e.kind {
		case "wok", "wfail":
			return !wrote
		case "resp", "err":
			return !resp
		case "dup":
			return resp && !dup
		case "cancel":
			// C19 quantifies over cancellation versus response arrival; a
			// request whose write is still blocked is outside it. A request
			// that has not been written because it is queued behind another
			// one (client pipelining) is inside: the run-time check in apply
			// tells the two apart.
			return !canc
		case "unknown":
			return !unk
		}
		return true
	}
	rec = func() {
		if len(cur) > 0 {
			out = append(out, append([]sev(nil), cur...))
		}
		if len(cur) == l {
			return
		}
		for _, e := range alpha {
			if valid(e) {
				cur = append(cur, e)
				rec()
				cur = cur[:len(cur)-1]
			}
		}
	}
	rec()
	return out
}

func scriptString(s []sev) string {
	parts := make([]string, len(s))
	for i, e := range s {
		parts[i] = e.String()
	}
	return strings.Join(parts, ",")
}

type schedResult struct {
	skipped  bool // an event was not applicable in the reached state
	findings []schedFinding
	nontriv  bool
}

type schedFinding struct {
	prop, fsig, what string
}

type schedVariant struct {
	hdr      string
	pipeline bool
	direct   bool
	forms    []string
}

func (v schedVariant) String() string {
	return fmt.Sprintf("%s/p=%v/d=%v/%s", v.hdr, v.pipeline, v.direct, strings.Join(v.forms, "+"))
}

func newSchedConn(v schedVariant, sm *memnet.Scripted) *rpc.Conn {
	var enc rpc.Encoder
	if f := svc.NewEncoder(v.hdr); f != nil {
		enc = f()
	}
	conn := rpc.NewConnWithCodec(rpc.NewClientCodec(&rpc.BYTESCodec{}, enc, sm, 0))
	if v.pipeline {
		conn.SetPipelining(true)
	}
	if v.direct {
		conn.SetDirectIO(true)
	}
	return conn
}

var schedRun uint32

// runScript executes one script; race > 0 fires the last two events
// concurrently instead of one after the other.
func runScript(script []sev, v schedVariant, race bool) schedResult {
	var res schedResult
	bad := func(prop, fsig, what string) {
		if len(res.findings) < 6 {
			res.findings = append(res.findings, schedFinding{prop, fsig, what})
		}
	}
	t0 := time.Now()
	run := atomic.AddUint32(&schedRun, 1)
	smA := memnet.NewScripted(true)
	connA := newSchedConn(v, smA)
	smB := memnet.NewScripted(true)
	connB := newSchedConn(schedVariant{hdr: v.hdr}, smB)
	ops := make([]*sop, len(v.forms))
	// start the operations one at a time so that write k belongs to op k
	for i, form := range v.forms {
		o := &sop{idx: i, form: form, done: make(chan *rpc.Call, 6)}
		o.spec = svc.Spec{Run: run, Conn: 1, Caller: uint32(i), Counter: uint64(i), ReplyLen: uint32(10 + 7*i), Fill: 5 * i}
		o.args = svc.Build(o.spec)
		o.reply = append([]byte(nil), rig.Sentinel...)
		ops[i] = o
		switch form {
		case rig.FormGo:
			go func() { connA.Go("S.B0", &o.args, &o.reply, o.done) }()
		case rig.FormRoundTrip:
			o.call = &rpc.Call{ServiceMethod: "S.B0", Args: &o.args, Reply: &o.reply, Done: o.done}
			go func() { connA.RoundTrip(o.call) }()
		case rig.FormCall:
			go func() {
				o.retErr = connA.Call("S.B0", &o.args, &o.reply)
				o.retAt = time.Since(t0)
				atomic.StoreInt32(&o.returned, 1)
			}()
		case rig.FormCtx, rig.FormCtxBuf:
			ctx, cancel := context.WithCancel(context.Background())
			if form == rig.FormCtxBuf {
				ctx = context.WithValue(ctx, rpc.BufferContextKey, make([]byte, 0, 256))
			}
			o.cancel = cancel
			go func() {
				o.retErr = connA.CallWithContext(ctx, "S.B0", &o.args, &o.reply)
				o.retAt = time.Since(t0)
				atomic.StoreInt32(&o.returned, 1)
			}()
		case "Ping":
			go func() {
				o.retErr = connA.Ping()
				o.retAt = time.Since(t0)
				atomic.StoreInt32(&o.returned, 1)
			}()
		}
		synctest.Wait()
	}
	// which write belongs to which op (by payload id; pings by flag)
	writeOf := func(i int) int {
		ws := smA.Writes()
		for wi, w := range ws {
			req, err := wire.DecodeReq(v.hdr, w.Frame, false)
			if err != nil {
				continue
			}
			if ops[i].form == "Ping" {
				if len(req.Upgrade) == 1 && wire.ParseFlags(req.Upgrade[0]).Heartbeat {
					// k-th ping write belongs to the k-th ping op
					k := 0
					for j := 0; j < i; j++ {
						if ops[j].form == "Ping" {
							k++
						}
					}
					seen := 0
					for wj := 0; wj <= wi; wj++ {
						r2, e2 := wire.DecodeReq(v.hdr, ws[wj].Frame, false)
						if e2 == nil && len(r2.Upgrade) == 1 && wire.ParseFlags(r2.Upgrade[0]).Heartbeat {
							if seen == k && wj == wi {
								return wi
							}
							seen++
						}
					}
				}
				continue
			}
			if pl, ok := svc.ExtractPayload(svc.CodecBytes, req.Args); ok {
				if sp, _ := svc.Parse(pl); sp.Caller == uint32(i) && sp.Run == run {
					return wi
				}
			}
		}
		return -1
	}
	seqOf := func(i int) (uint64, bool) {
		wi := writeOf(i)
		if wi < 0 {
			// In pipelining mode the request may not have reached the write
			// gate yet; its sequence number is its issue index.
			return uint64(i), false
		}
		req, _ := wire.DecodeReq(v.hdr, smA.Frame(wi), false)
		return req.Seq, true
	}
	var relMu sync.Mutex // the last two events of a race script are applied concurrently
	released := map[int]bool{}
	wroteOK := map[int]bool{}
	isReleased := func(i int) bool { relMu.Lock(); defer relMu.Unlock(); return released[i] }
	isWroteOK := func(i int) bool { relMu.Lock(); defer relMu.Unlock(); return wroteOK[i] }
	anyCancel := false
	var canaries []*canary
	pump := func() {
		for _, o := range ops {
			o.drain()
			if o.blocking() && atomic.LoadInt32(&o.returned) == 1 && !o.canaried {
				o.canaried = true
				for k := 0; k < 2; k++ {
					c := &canary{}
					c.spec = svc.Spec{Run: run, Conn: 2, Caller: uint32(o.idx), Counter: uint64(1000 + len(canaries)), ReplyLen: 9}
					c.args = svc.Build(c.spec)
					c.reply = append([]byte(nil), rig.Sentinel...)
					canaries = append(canaries, c)
					go func() {
						c.err = connB.Call("S.B0", &c.args, &c.reply)
						atomic.StoreInt32(&c.returned, 1)
					}()
				}
			}
		}
	}
	apply := func(e sev) bool {
		switch e.kind {
		case "wok", "wfail":
			wi := writeOf(e.i)
			if wi < 0 {
				return false
			}
			var err error
			if e.kind == "wfail" {
				err = errInjectedWrite
			}
			if smA.Release(wi, err) {
				relMu.Lock()
				released[e.i] = true
				if err == nil {
					wroteOK[e.i] = true
				}
				relMu.Unlock()
				return true
			}
			return false
		case "resp", "err", "dup":
			seq, _ := seqOf(e.i)
			r := wire.Res{Seq: seq}
			if e.kind == "err" {
				r.Error = svc.ErrText(svc.Build(svc.Spec{Run: run, Caller: uint32(e.i), FailLen: 40}))
			} else if ops[e.i].form != "Ping" {
				r.Reply = svc.Reply(ops[e.i].args)
			}
			smA.Push(wire.EncodeRes(v.hdr, r))
		case "cancel":
			if ops[e.i].cancel == nil {
				return false
			}
			if !isReleased(e.i) {
				// Not written yet. A request still queued behind an earlier,
				// gated write (pipelining) is abandoned like any other. A
				// request whose own write is blocked cannot be abandoned
				// promptly (outside the statement), so promptness is not
				// judged for it - but what the call finally returns is: the
				// context's error, or nil with the right reply.
				if writeOf(e.i) >= 0 {
					ops[e.i].cancelWhileWriting = true
				} else if !v.pipeline {
					return false
				}
			}
			ops[e.i].cancelAt = time.Since(t0)
			ops[e.i].cancelled = true
			ops[e.i].cancel()
		case "unknown":
			smA.Push(wire.EncodeRes(v.hdr, wire.Res{Seq: 987654, Reply: []byte("nobody asked")}))
		case "eof":
			smA.PushErr(io.EOF)
		case "readerr":
			smA.PushErr(errInjectedRead)
		case "close":
			go connA.Close()
		}
		return true
	}
	pump()
	for k, e := range script {
		if race && k == len(script)-2 {
			// fire the last two events concurrently
			e2 := script[k+1]
			ok1, ok2 := true, true
			done := make(chan struct{}, 2)
			go func() { ok1 = apply(e); done <- struct{}{} }()
			go func() { ok2 = apply(e2); done <- struct{}{} }()
			<-done
			<-done
			if !ok1 || !ok2 {
				res.skipped = true
			}
			synctest.Wait()
			pump()
			break
		}
		if !apply(e) {
			res.skipped = true
			break
		}
		synctest.Wait()
		pump()
		// C19: the abandonment of one call does not keep another call, whose
		// request was written and whose response has now arrived, from returning
		if (e.kind == "resp" || e.kind == "err") && anyCancel && isWroteOK(e.i) && !ops[e.i].cancelled && ops[e.i].blocking() && atomic.LoadInt32(&ops[e.i].returned) == 0 {
			bad("C19", "C19/sched/sibling-not-completed", fmt.Sprintf("%s (op %d) has not returned although its request was written and its response has arrived, after another call had been abandoned by its context (script %s, %s)", ops[e.i].form, e.i+1, scriptString(script), v))
		}
		if e.kind == "cancel" {
			anyCancel = true
		}
		// C19: a cancelled context call must have returned by now
		if e.kind == "cancel" {
			o := ops[e.i]
			if atomic.LoadInt32(&o.returned) == 0 && !o.cancelWhileWriting {
				bad("C19", "C19/sched/cancel-not-prompt", fmt.Sprintf("CallWithContext has not returned although its context was cancelled and the system is quiescent (script %s, %s)", scriptString(script), v))
			}
		}
	}
	// finish: Close, then let every held write fail
	go connA.Close()
	synctest.Wait()
	pump()
	for i := 0; i < smA.NumWrites(); i++ {
		smA.Release(i, errInjectedWrite)
	}
	synctest.Wait()
	pump()
	for _, o := range ops {
		if o.cancel != nil {
			o.cancel()
		}
	}
	synctest.Wait()
	pump()
	desc := fmt.Sprintf("script [%s], %s, race=%v", scriptString(script), v, race)
	if res.skipped {
		connB.Close()
		for i := 0; i < smB.NumWrites(); i++ {
			smB.Release(i, errInjectedWrite)
		}
		synctest.Wait()
		return res
	}
	terminalSeen := false
	for _, e := range script {
		if e.kind == "eof" || e.kind == "readerr" || e.kind == "close" {
			terminalSeen = true
		}
	}
	res.nontriv = terminalSeen || len(script) >= 2
	for _, o := range ops {
		if o.blocking() {
			if atomic.LoadInt32(&o.returned) == 0 {
				bad("C02", "C02/sched/never-returned/"+o.form, fmt.Sprintf("%s (op %d) has not returned after Close and quiescence (%s)", o.form, o.idx+1, desc))
				continue
			}
			if o.retErr == nil && o.form != "Ping" && !bytes.Equal(o.reply, svc.Reply(o.args)) {
				bad("C01", "C01/sched/wrong-reply", fmt.Sprintf("%s (op %d) returned nil with a reply that is not f(args) (%s)", o.form, o.idx+1, desc))
				if o.cancelled {
					bad("C19", "C19/sched/nil-error-without-reply", fmt.Sprintf("%s (op %d), whose context ended around the arrival of its response, returned a nil error with a reply object that does not hold the reply (%d bytes, sentinel untouched=%v): it must return the context's error or the reply (%s)", o.form, o.idx+1, len(o.reply), bytes.Equal(o.reply, rig.Sentinel), desc))
				}
			}
			// C19: what a context call must return
			if o.cancelled && o.cancel != nil && o.retErr != nil && o.retErr != context.Canceled {
				// returning the connection's error is legitimate if it failed first
				_ = o
			}
			continue
		}
		o.drain()
		if o.completions != 1 {
			bad("C02", fmt.Sprintf("C02/sched/completions=%d/%s", min(o.completions, 2), o.form), fmt.Sprintf("%s (op %d) was signalled %d times on its Done channel (%s)", o.form, o.idx+1, o.completions, desc))
		}
		if o.firstSeen && o.call != nil {
			now := o.call.Error
			nowText := ""
			if now != nil {
				nowText = now.Error()
			}
			if now != o.firstErr || nowText != o.firstText {
				bad("C02", "C02/sched/error-rewritten/"+o.form, fmt.Sprintf("%s (op %d): Error was %q when completion was signalled and is %q afterwards (%s)", o.form, o.idx+1, o.firstText, nowText, desc))
			}
			if o.firstErr == nil && !bytes.Equal(o.retReply, svc.Reply(o.args)) {
				bad("C01", "C01/sched/wrong-reply", fmt.Sprintf("%s (op %d) completed without error with a reply that is not f(args) (%s)", o.form, o.idx+1, desc))
			}
		}
	}
	// canaries must still be waiting: nothing has answered them
	for _, c := range canaries {
		if atomic.LoadInt32(&c.returned) == 1 {
			bad("C02", "C02/sched/canary-completed-early", fmt.Sprintf("a fresh Call on another connection, whose request was never answered, returned (err=%v): a recycled call object was signalled by a late completion (%s)", c.err, desc))
		}
	}
	// answer the canaries properly
	for i := 0; i < smB.NumWrites(); i++ {
		smB.Release(i, nil)
	}
	synctest.Wait()
	for i := 0; i < smB.NumWrites(); i++ {
		req, err := wire.DecodeReq(v.hdr, smB.Frame(i), false)
		if err == nil {
			smB.Push(wire.EncodeRes(v.hdr, wire.Res{Seq: req.Seq, Reply: svc.Reply(req.Args)}))
		}
	}
	synctest.Wait()
	for i := 0; i < smB.NumWrites(); i++ { // writes that were queued behind the first ones (none expected)
		smB.Release(i, nil)
	}
	synctest.Wait()
	for _, c := range canaries {
		if atomic.LoadInt32(&c.returned) == 0 {
			bad("C02", "C02/sched/canary-hung", fmt.Sprintf("a fresh Call on another connection did not return after its response was delivered (%s)", desc))
		} else if c.err != nil || !bytes.Equal(c.reply, svc.Reply(c.args)) {
			if !res.hasFsig("C02/sched/canary-completed-early") {
				bad("C02", "C02/sched/canary-wrong", fmt.Sprintf("a fresh Call on another connection returned err=%v / wrong reply (%s)", c.err, desc))
			}
		}
	}
	connB.Close()
	synctest.Wait()
	return res
}

func (r *schedResult) hasFsig(s string) bool {
	for _, f := range r.findings {
		if f.fsig == s {
			return true
		}
	}
	return false
}

func schedVariantFor(idx int, n int, ctx bool) schedVariant {
	v := schedVariant{hdr: wire.Formats[idx%4]}
	switch (idx / 4) % 3 {
	case 1:
		v.pipeline = true
	case 2:
		v.direct = true
	}
	for i := 0; i < n; i++ {
		if ctx {
			v.forms = append(v.forms, []string{rig.FormCtx, rig.FormCtxBuf}[(idx/12+i)%2])
			continue
		}
		v.forms = append(v.forms, schedForms[(idx/12+i*2+idx%5)%5])
	}
	return v
}

func schedEngine(a Args) {
	var x schedExtra
	json.Unmarshal(a.Extra, &x)
	if x.N < 1 {
		x.N = 2
	}
	if x.L < 1 {
		x.L = 3
	}
	scripts := enumScripts(x.N, x.L, x.Ctx)
	ran, skipped, nontriv := 0, 0, 0
	var sigs []string
	viol := 0
	var sample []string
	for idx := a.From; idx < len(scripts); idx += a.Stride {
		if x.Sample > 1 && (idx/a.Stride+int(a.Seed))%x.Sample != 0 {
			continue
		}
		sc := scripts[idx]
		cs := fmt.Sprintf("sched/n%d/%s", x.N, scriptString(sc))
		if !wantCase(a, cs) {
			continue
		}
		if ran%200 == 0 {
			mon.Progress("sched", cs)
		}
		reps := 1
		race := false
		if x.Race > 0 && len(sc) >= 2 {
			reps = x.Race
			race = true
		}
		for rep := 0; rep < reps; rep++ {
			mon.Beat()
			v := schedVariantFor(idx+rep+int(a.Seed)*7, x.N, x.Ctx)
			r := runScript(sc, v, race)
			if r.skipped {
				skipped++
				continue
			}
			ran++
			if r.nontriv {
				nontriv++
				if rep == 0 {
					sigs = append(sigs, fmt.Sprintf("n%d/%s/race=%v", x.N, scriptString(sc), race))
				}
			}
			if len(sample) < 5 && ran%997 == 1 {
				sample = append(sample, fmt.Sprintf("ops=%v events=[%s] variant=%s", v.forms, scriptString(sc), v))
			}
			for _, f := range r.findings {
				if a.Prop != "" && f.prop != a.Prop {
					continue
				}
				viol++
				if viol <= 60 {
					mon.Emit(mon.Result{T: "case", Engine: "sched", Case: cs, Verdict: mon.Violated, Prop: f.prop, What: f.what, FSig: f.fsig, N: 0,
						Witness: map[string]interface{}{"script": scriptString(sc), "variant": v.String(), "race": race}})
				}
			}
		}
	}
	mon.Emit(mon.Result{T: "case", Engine: "sched", Case: fmt.Sprintf("sched/n%d/l%d/summary", x.N, x.L), Verdict: mon.Held, N: ran, Sigs: sigs,
		Stats:  map[string]int64{"scripts_run": int64(ran), "scripts_not_applicable": int64(skipped), "scripts_with_terminal_or_2plus_events": int64(nontriv), "max_script_space": int64(len(scripts))},
		Sample: sample})
}
