//go:build go1.25

package vt

import (
	"testing/synctest"
	"time"

	"verif/harness/mon"
	"verif/harness/scen"
)

// vEnv is the virtual-time substrate: progress is made by letting the bubble
// reach quiescence and then advancing the fake clock.
type vEnv struct{}

func (vEnv) Virtual() bool { return true }

func (vEnv) Settle(done func() bool, budget time.Duration) bool {
	start := time.Now()
	step := 200 * time.Microsecond
	for {
		synctest.Wait()
		if done() {
			return true
		}
		if time.Since(start) >= budget {
			return false
		}
		time.Sleep(step)
		if step < time.Second {
			step *= 2
		}
	}
}

func wantCase(a Args, c string) bool {
	if len(a.Cases) == 0 {
		return true
	}
	for _, x := range a.Cases {
		if x == c {
			return true
		}
	}
	return false
}

// emit turns an Outcome into result lines: one "case" line, plus one line per
// finding of the property being checked (findings against other properties are
// counted in the stats; their own checks report them).
func emit(engine, cs string, a Args, o *scen.Outcome) {
	if o.Stats == nil {
		o.Stats = map[string]int64{}
	}
	mine := 0
	for _, f := range o.Findings {
		if a.Prop == "" || f.Prop == a.Prop {
			mine++
			mon.Emit(mon.Result{T: "case", Engine: engine, Case: cs, Verdict: mon.Violated, Prop: f.Prop, What: f.What, FSig: f.FSig, Witness: f.Witness, N: 0})
		} else {
			o.Stats["findings_for_other_properties"]++
		}
	}
	v := mon.Held
	if o.Inconclusive != "" {
		v = mon.Inconclusive
	}
	mon.Emit(mon.Result{T: "case", Engine: engine, Case: cs, Verdict: v, What: o.Inconclusive, Sig: o.Sig, Nontrivial: o.Nontrivial, Stats: o.Stats, Sample: o.Sample})
}
