//go:build go1.25

package vt

import (
	"encoding/json"
	"fmt"
	"math/rand"
	"sync"
	"sync/atomic"
	"testing/synctest"
	"time"

	"github.com/hslam/rpc"
	"verif/harness/memnet"
	"verif/harness/mon"
	"verif/harness/rig"
	"verif/harness/scen"
	"verif/harness/svc"
	"verif/harness/wire"
)

// Engine "sclose" decides C10 on the virtual-time substrate: sibling streams
// with readers blocked on both ends and messages in flight; then one stream
// is closed, or the connection is closed / cut, or the server is closed.

func init() { engines["sclose"] = scloseEngine }

type sstream struct {
	id                   uint64
	st                   rpc.Stream
	blocked              int32 // reader goroutine is in its final, blocking ReadMessage
	readErr              error
	returned             int32
	nreads               int32
	mu                   sync.Mutex
	readers, readersDone int32
}

func runSClose(seed int64, idx int) *scen.Outcome {
	out := &scen.Outcome{Stats: map[string]int64{}}
	rng := rand.New(rand.NewSource(seed*3301 + int64(idx)*7))
	m := cutModes[rng.Intn(len(cutModes))]
	cfg := rig.Config{Network: "mem", Header: wire.Formats[rng.Intn(4)], Codec: svc.Codecs[rng.Intn(4)], SrvPipelining: m.sp, SrvDirect: m.sd, CliPipelining: m.cp, CliDirect: m.cd,
		Pushes: []int{0, 1}, Frag: []int{0, 0, 5, 200}[rng.Intn(4)]}
	event := []string{"closestream", "closestream", "connclose", "cut", "serverclose"}[rng.Intn(5)]
	k := 1 + rng.Intn(5)
	inflight := rng.Intn(2) == 0
	desc := fmt.Sprintf("%s streams=%d event=%s inflight=%v", cfg, k, event, inflight)
	bad := func(fsig, what string) {
		if len(out.Findings) < 8 {
			out.Findings = append(out.Findings, scen.Finding{Prop: "C10", FSig: fsig, What: what + " [" + desc + "]"})
		}
	}
	r := rig.Start(cfg, nil, fmt.Sprintf("sc-%d", idx), seed)
	if err := r.WaitUp(); err != nil {
		out.Inconclusive = "server did not come up"
		return out
	}
	conn, err := r.Dial()
	if err != nil {
		out.Inconclusive = "dial failed"
		return out
	}
	pairs := r.Net.Pairs()
	pair := pairs[len(pairs)-1]
	codec := cfg.Codec
	env := vEnv{}
	// open the streams, identify each to the server with one echo
	streams := make([]*sstream, k)
	for i := range streams {
		s := &sstream{id: uint64(idx)<<16 | uint64(i+1)}
		streams[i] = s
		push := rng.Intn(2)
		method := svc.StreamMethod(push, codec)
		fan := rng.Intn(4) == 0
		if fan {
			// a handler that reads its stream from two goroutines
			push = 0
			method = "F2.S" + svc.Prefix(codec)
		}
		st, err := conn.NewStream(method)
		if err != nil {
			bad("C10/sclose/open-failed", "NewStream failed on a healthy connection: "+err.Error())
			return out
		}
		s.st = st
		box := svc.NewBox(codec)
		for p := 0; p < push; p++ {
			if err := st.ReadMessage(nil, box.Ptr()); err != nil {
				bad("C10/sclose/setup", "reading the push failed: "+err.Error())
				return out
			}
		}
		box.Set(svc.StreamMsg(s.id, svc.DirUp, 0, svc.KindEcho, 0, 50))
		if err := st.WriteMessage(box.Ptr()); err != nil {
			bad("C10/sclose/setup", "first write failed: "+err.Error())
			return out
		}
		if err := st.ReadMessage(nil, box.Ptr()); err != nil {
			bad("C10/sclose/setup", "first answer failed: "+err.Error())
			return out
		}
		readers := 1 + rng.Intn(2) // sometimes two consumers on the client end
		s.readers = int32(readers)
		for k := 0; k < readers; k++ {
			go func() {
				atomic.StoreInt32(&s.blocked, 1)
				b := svc.NewBox(codec)
				for {
					err := st.ReadMessage(nil, b.Ptr())
					if err != nil {
						s.mu.Lock()
						if s.readErr == nil || err != rpc.ErrStreamShutdown {
							s.readErr = err
						}
						s.mu.Unlock()
						break
					}
					atomic.AddInt32(&s.nreads, 1)
				}
				if atomic.AddInt32(&s.readersDone, 1) == s.readers {
					atomic.StoreInt32(&s.returned, 1)
				}
			}()
		}
	}
	synctest.Wait()
	// messages in flight at the moment of the event
	if inflight {
		for _, s := range streams {
			box := svc.NewBox(codec)
			box.Set(svc.StreamMsg(s.id, svc.DirUp, 1, svc.KindSink, 0, 30+rng.Intn(3000)))
			s.st.WriteMessage(box.Ptr())
		}
	}
	// hot writers: on some scenarios every stream has a goroutine that writes
	// a burst of messages at the very instant of the event, so that
	// WriteMessage runs concurrently with the close / teardown paths
	var writersLeft int32
	if rng.Intn(3) == 0 {
		at := time.Duration(200+rng.Intn(800)) * time.Microsecond
		for _, s := range streams {
			s := s
			n := 5 + rng.Intn(40)
			size := 30 + rng.Intn(400)
			atomic.AddInt32(&writersLeft, 1)
			go func() {
				defer atomic.AddInt32(&writersLeft, -1)
				time.Sleep(at)
				for i := 0; i < n; i++ {
					box := svc.NewBox(codec)
					box.Set(svc.StreamMsg(s.id, svc.DirUp, uint32(100+i), svc.KindSink, 0, size))
					if s.st.WriteMessage(box.Ptr()) != nil {
						return
					}
				}
			}()
		}
		time.Sleep(at)
		desc += " hotwriters"
	}
	victim := rng.Intn(k)
	var longSpec svc.Spec
	var longDone chan *rig.CallRec
	switch event {
	case "closestream":
		if rng.Intn(2) == 0 {
			synctest.Wait()
		}
		if rng.Intn(2) == 0 {
			// a long unary handler (30 virtual seconds) is running on the same
			// connection when the stream is closed: "promptly" must not mean
			// "once unrelated handlers have returned"
			longSpec = svc.Spec{Run: uint32(idx), Conn: 1, Caller: 8, Counter: 7, ReplyLen: 30, DelayUs: 30_000_000}
			longDone = make(chan *rig.CallRec, 1)
			go func() { longDone <- rig.Do(conn, rig.FormCall, codec, rig.Method(codec, 0), longSpec, 0, nil) }()
			synctest.Wait()
			desc += " longunary"
		}
		if err := streams[victim].st.Close(); err != nil {
			bad("C10/sclose/close-error", "Stream.Close returned "+err.Error())
		}
	case "connclose":
		conn.Close()
	case "cut":
		_, del := pair.Counts(memnet.Dir(rng.Intn(2)))
		d := memnet.Dir(rng.Intn(2))
		_, del = pair.Counts(d)
		pair.CutAt(d, del+int64(rng.Intn(40)), []string{memnet.KindReset, memnet.KindEOF, memnet.KindCustom}[rng.Intn(3)])
		if !inflight {
			// make sure the cut trips: some traffic in both directions
			go conn.Ping()
		}
	case "serverclose":
		r.Server.Close()
	}
	affected := func(i int) bool { return event != "closestream" || i == victim }
	settled := env.Settle(func() bool {
		if atomic.LoadInt32(&writersLeft) > 0 {
			return false
		}
		for i, s := range streams {
			if affected(i) && atomic.LoadInt32(&s.returned) == 0 {
				return false
			}
		}
		_, srecs, _ := r.Ledger.Snapshot()
		for _, sr := range srecs {
			for i, s := range streams {
				if affected(i) && len(sr.Reads) > 0 && sr.Reads[0].Info.Stream == s.id && sr.Exit == 0 {
					return false
				}
			}
		}
		return true
	}, 10*time.Minute)
	if n := atomic.LoadInt32(&writersLeft); n > 0 {
		bad("C10/sclose/writer-blocked/"+event, fmt.Sprintf("%d goroutines are still blocked in WriteMessage at quiescence after %s", n, event))
	}
	_, srvClosed := pair.ClosedBy()
	if event == "serverclose" && !srvClosed || event == "cut" && !pair.Broken() {
		// the event did not end the connection (nothing for the property to judge)
		out.Stats["event_without_effect"]++
		conn.Close()
		r.Server.Close()
		env.Settle(func() bool { u, s := r.Ledger.Running(); return u == 0 && s == 0 }, time.Minute)
		out.Sig = desc
		return out
	}
	_, srecs, _ := r.Ledger.Snapshot()
	recOf := func(id uint64) *svc.StreamRec {
		for i := range srecs {
			if len(srecs[i].Reads) > 0 && srecs[i].Reads[0].Info.Stream == id {
				return &srecs[i]
			}
		}
		return nil
	}
	for i, s := range streams {
		if !affected(i) {
			continue
		}
		if atomic.LoadInt32(&s.returned) == 0 {
			bad("C10/sclose/client-read-blocked/"+event, fmt.Sprintf("%d of the %d client-side ReadMessage calls on stream %d are still blocked at quiescence after %s", s.readers-atomic.LoadInt32(&s.readersDone), s.readers, i, event))
		} else if s.readErr != rpc.ErrStreamShutdown {
			bad("C10/sclose/client-read-error/"+event, fmt.Sprintf("the client's blocked ReadMessage on stream %d returned %v after %s, expected ErrStreamShutdown", i, s.readErr, event))
		}
		sr := recOf(s.id)
		if sr == nil {
			bad("C10/sclose/no-server-record", fmt.Sprintf("no server-side handler saw stream %d", i))
		} else if sr.Exit == 0 {
			bad("C10/sclose/handler-blocked/"+event, fmt.Sprintf("the server-side handler of stream %d has not returned at quiescence after %s (it read %d messages)", i, event, len(sr.Reads)))
		} else if sr.ReadErr != rpc.ErrStreamShutdown.Error() && sr.WriteErr == "" {
			bad("C10/sclose/handler-error/"+event, fmt.Sprintf("the server-side ReadMessage of stream %d returned %q after %s, expected ErrStreamShutdown", i, sr.ReadErr, event))
		}
		// later operations fail at once
		t0 := time.Now()
		box := svc.NewBox(codec)
		e1 := s.st.ReadMessage(nil, box.Ptr())
		box.Set(svc.StreamMsg(s.id, svc.DirUp, 9, svc.KindSink, 0, 30))
		e2 := s.st.WriteMessage(box.Ptr())
		if e1 != rpc.ErrStreamShutdown || e2 != rpc.ErrStreamShutdown || time.Since(t0) != 0 {
			bad("C10/sclose/later-ops/"+event, fmt.Sprintf("after %s, ReadMessage returned %v and WriteMessage %v on stream %d (took %v); both must return ErrStreamShutdown at once", event, e1, e2, i, time.Since(t0)))
		}
	}
	_ = settled
	if event != "closestream" {
		// the connection has ended: a call started now fails at once (C03)
		t0 := time.Now()
		rec := rig.Do(conn, rig.FormCall, codec, rig.Method(codec, 0), svc.Spec{Run: uint32(idx), Conn: 1, Caller: 9, Counter: 2, ReplyLen: 30}, 0, nil)
		if rec.Err != rpc.ErrShutdown || time.Since(t0) != 0 {
			out.Findings = append(out.Findings, scen.Finding{Prop: "C03", FSig: "C03/sclose/later-call/" + event, What: fmt.Sprintf("a Call started after the connection had ended (%s, with streams open) returned %v after %v; expected ErrShutdown at once [%s]", event, rec.Err, time.Since(t0), desc)})
		}
	}
	if longDone != nil {
		// the victim's handler must have been released while the long unary
		// handler was still running, and the long call itself is undisturbed
		execs, _, _ := r.Ledger.Snapshot()
		var longExit int64 = -1
		for _, e := range execs {
			if e.ID == longSpec.ID() {
				longExit = e.Exit
			}
		}
		sr := recOf(streams[victim].id)
		switch {
		case longExit < 0:
			out.Stats["longunary_not_started"]++
		case sr != nil && sr.Exit != 0 && longExit != 0 && sr.Exit > longExit:
			bad("C10/sclose/released-only-after-unary", fmt.Sprintf("the server-side handler of the closed stream %d was released only after an unrelated 30 s unary handler on the same connection had returned", victim))
		default:
			out.Stats["longunary_stream_released_first"]++
		}
		env.Settle(func() bool { return len(longDone) > 0 }, 2*time.Minute)
		select {
		case rec := <-longDone:
			if rec.Err != nil || rig.CheckReply(rec) != "" {
				bad("C10/sclose/unary-disturbed", fmt.Sprintf("a unary call outstanding while stream %d was closed failed: %v %s", victim, rec.Err, rig.CheckReply(rec)))
			}
		default:
			bad("C10/sclose/unary-disturbed", fmt.Sprintf("a 30 s unary call outstanding while stream %d was closed has not returned after two virtual minutes", victim))
		}
	}
	if event == "closestream" {
		// siblings and unary calls must be undisturbed
		for i, s := range streams {
			if i == victim {
				continue
			}
			if atomic.LoadInt32(&s.returned) == 1 {
				bad("C10/sclose/sibling-disturbed", fmt.Sprintf("closing stream %d made the blocked reader of sibling stream %d return %v", victim, i, s.readErr))
				continue
			}
			before := atomic.LoadInt32(&s.nreads)
			box := svc.NewBox(codec)
			box.Set(svc.StreamMsg(s.id, svc.DirUp, 5, svc.KindEcho, 0, 80))
			if err := s.st.WriteMessage(box.Ptr()); err != nil {
				bad("C10/sclose/sibling-write", fmt.Sprintf("after closing stream %d, WriteMessage on sibling %d failed: %v", victim, i, err))
			}
			env.Settle(func() bool { return atomic.LoadInt32(&s.nreads) > before }, time.Minute)
			if atomic.LoadInt32(&s.nreads) <= before {
				bad("C10/sclose/sibling-no-answer", fmt.Sprintf("after closing stream %d, sibling %d got no answer to an echo", victim, i))
			}
		}
		rec := rig.Do(conn, rig.FormCall, codec, rig.Method(codec, 0), svc.Spec{Run: uint32(idx), Conn: 1, Caller: 9, Counter: 1, ReplyLen: 30}, 0, nil)
		if rec.Err != nil || rig.CheckReply(rec) != "" {
			bad("C10/sclose/unary-disturbed", fmt.Sprintf("after closing stream %d a unary call on the connection failed: %v %s", victim, rec.Err, rig.CheckReply(rec)))
		}
	}
	conn.Close()
	r.Server.Close()
	env.Settle(func() bool { u, s := r.Ledger.Running(); return u == 0 && s == 0 }, time.Minute)
	if u, s := r.Ledger.Running(); s > 0 {
		_ = u
		bad("C10/sclose/handler-blocked/final", fmt.Sprintf("%d stream handlers have not returned after the connection and the server were closed", s))
	}
	out.Sig = desc
	out.Nontrivial = true
	out.Stats["streams"] = int64(k)
	return out
}

func scloseEngine(a Args) {
	var x struct{}
	json.Unmarshal(a.Extra, &x)
	for idx := a.From; idx < a.To; idx += a.Stride {
		cs := fmt.Sprintf("sclose/%d", idx)
		if !wantCase(a, cs) {
			continue
		}
		mon.Progress("sclose", cs)
		o := runSClose(a.Seed, idx)
		if idx%50 == 0 {
			o.Sample = map[string]interface{}{"scenario": o.Sig}
		}
		emit("sclose", cs, a, o)
	}
}
