//go:build go1.25

package vt

import (
	"context"
	"encoding/json"
	"fmt"
	"math/rand"
	"sort"
	"strings"
	"sync"
	"sync/atomic"
	"testing/synctest"
	"time"

	"github.com/anishathalye/porcupine"
	"github.com/hslam/rpc"
	"verif/harness/mon"
	"verif/harness/scen"
	"verif/harness/svc"
)

// Engine "policy": a real rpc.Client over a fake RoundTripper with scripted
// per-address health and latency, in virtual time. Classes: "route" (C16,
// porcupine), "policy" (C17, shadow model), "failover" (C18, exact times).

func init() { engines["policy"] = policyEngine }

type policyExtra struct {
	Class string `json:"class"`
}

// arrival is one call reaching the RoundTripper.
type arrival struct {
	stamp int64
	at    time.Duration
	addr  string
	op    string
	token uint64
}

type downIv struct{ from, to time.Duration }

// fakeRT implements rpc.RoundTripper.
type fakeRT struct {
	t0       time.Time
	mu       sync.Mutex
	arrivals []arrival
	down     map[string][]downIv
	latency  func(addr string, at time.Duration) time.Duration
	pingLat  time.Duration
	// refuseLat, if > 0, is how long a refused ping takes (a slow refusal)
	refuseLat time.Duration
	closed    int32
}

func (f *fakeRT) now() time.Duration { return time.Since(f.t0) }

func (f *fakeRT) isDown(addr string, at time.Duration) bool {
	f.mu.Lock()
	defer f.mu.Unlock()
	for _, iv := range f.down[addr] {
		if at >= iv.from && at < iv.to {
			return true
		}
	}
	return false
}

func (f *fakeRT) arrive(addr, op string, token uint64) (time.Duration, bool) {
	at := f.now()
	f.mu.Lock()
	f.arrivals = append(f.arrivals, arrival{svc.Stamp(), at, addr, op, token})
	f.mu.Unlock()
	if addr == "" {
		return at, false
	}
	return at, !f.isDown(addr, at)
}

func tokenOf(args interface{}) uint64 {
	if p, ok := args.(*uint64); ok && p != nil {
		return *p
	}
	return 0
}

func (f *fakeRT) lat(addr string, at time.Duration) time.Duration {
	if f.latency == nil {
		return 0
	}
	return f.latency(addr, at)
}

func (f *fakeRT) RoundTrip(addr string, call *rpc.Call) *rpc.Call {
	at, ok := f.arrive(addr, "RoundTrip", tokenOf(call.Args))
	if call.Done == nil {
		call.Done = make(chan *rpc.Call, 1)
	}
	if !ok {
		call.Error = rpc.ErrDial
		call.Done <- call
		return call
	}
	go func() {
		time.Sleep(f.lat(addr, at))
		call.Done <- call
	}()
	return call
}

func (f *fakeRT) Go(addr, m string, args interface{}, reply interface{}, done chan *rpc.Call) *rpc.Call {
	call := &rpc.Call{ServiceMethod: m, Args: args, Reply: reply, Done: done}
	return f.RoundTrip(addr, call)
}

func (f *fakeRT) Call(addr, m string, args interface{}, reply interface{}) error {
	at, ok := f.arrive(addr, "Call", tokenOf(args))
	if !ok {
		return rpc.ErrDial
	}
	time.Sleep(f.lat(addr, at))
	return nil
}

func (f *fakeRT) CallWithContext(ctx context.Context, addr string, m string, args interface{}, reply interface{}) error {
	at, ok := f.arrive(addr, "CallWithContext", tokenOf(args))
	if !ok {
		return rpc.ErrDial
	}
	time.Sleep(f.lat(addr, at))
	return nil
}

func (f *fakeRT) NewStream(addr, key string) (rpc.Stream, error) {
	var tok uint64
	fmt.Sscanf(key, "tok-%d", &tok)
	at, ok := f.arrive(addr, "NewStream", tok)
	if !ok {
		return nil, rpc.ErrDial
	}
	time.Sleep(f.lat(addr, at))
	return nil, nil
}

func (f *fakeRT) Ping(addr string) error {
	_, ok := f.arrive(addr, "Ping", 0)
	if addr == "" {
		return rpc.ErrDial
	}
	if !ok {
		if f.refuseLat > 0 {
			time.Sleep(f.refuseLat)
		} else {
			time.Sleep(f.pingLat)
		}
		return rpc.ErrDial
	}
	time.Sleep(f.pingLat)
	return nil
}

func (f *fakeRT) Close() error {
	atomic.StoreInt32(&f.closed, 1)
	return nil
}

func (f *fakeRT) snapshot() []arrival {
	f.mu.Lock()
	defer f.mu.Unlock()
	return append([]arrival(nil), f.arrivals...)
}

// ------------------------------------------------------------- C16 route ---

type routeIn struct {
	Kind     string // update | director | route
	Set      string // canonical target set
	Director string
}

func canonSet(ts []string) string {
	m := map[string]bool{}
	for _, t := range ts {
		if t != "" {
			m[t] = true
		}
	}
	var out []string
	for t := range m {
		out = append(out, t)
	}
	sort.Strings(out)
	return strings.Join(out, ",")
}

type routeState struct {
	Set      string
	Director string
}

var routeModel = porcupine.Model{
	Init: func() interface{} { return routeState{} },
	Step: func(state, input, output interface{}) (bool, interface{}) {
		st := state.(routeState)
		in := input.(routeIn)
		switch in.Kind {
		case "update":
			st.Set = in.Set
			return true, st
		case "director":
			st.Director = in.Director
			return true, st
		}
		addr := output.(string)
		if st.Director != "" {
			// the Director's non-empty result short-circuits scheduling
			return addr == st.Director, st
		}
		for _, t := range strings.Split(st.Set, ",") {
			if t != "" && t == addr {
				return true, st
			}
		}
		return false, st
	},
	Equal: func(a, b interface{}) bool { return a.(routeState) == b.(routeState) },
	DescribeOperation: func(input, output interface{}) string {
		in := input.(routeIn)
		switch in.Kind {
		case "update":
			return "Update{" + in.Set + "}"
		case "director":
			return "Director=" + in.Director
		}
		return fmt.Sprintf("route->%v", output)
	},
}

func runRoute(seed int64, idx int) *scen.Outcome {
	out := &scen.Outcome{Stats: map[string]int64{}}
	rng := rand.New(rand.NewSource(seed*4441 + int64(idx)*17))
	var rmu sync.Mutex
	rnd := func(n int) int { rmu.Lock(); defer rmu.Unlock(); return rng.Intn(n) }
	f := &fakeRT{t0: time.Now(), down: map[string][]downIv{}, pingLat: time.Duration(rng.Intn(3)) * time.Millisecond}
	universe := []string{"a", "b", "c", "d", "e", "f"}
	for _, a := range universe {
		if rng.Intn(3) == 0 {
			from := time.Duration(rng.Intn(2000)) * time.Millisecond
			f.down[a] = append(f.down[a], downIv{from, from + time.Duration(100+rng.Intn(1500))*time.Millisecond})
		}
	}
	f.latency = func(addr string, at time.Duration) time.Duration {
		return time.Duration(1+len(addr)) * time.Millisecond
	}
	c := rpc.NewClient(nil)
	c.Transport = f
	c.Scheduling = rpc.Scheduling(rng.Intn(3))
	c.DialTimeout = 300 * time.Millisecond
	var director atomic.Value
	director.Store("")
	type dret struct {
		stamp int64
		val   string
	}
	var dmu sync.Mutex
	var dlog []dret
	c.Director = func() string {
		v := director.Load().(string)
		dmu.Lock()
		dlog = append(dlog, dret{svc.Stamp(), v})
		dmu.Unlock()
		return v
	}
	var hmu sync.Mutex
	var ops []porcupine.Operation
	addOp := func(client int, in routeIn, outv interface{}, call, ret int64) {
		hmu.Lock()
		ops = append(ops, porcupine.Operation{ClientId: client, Input: in, Output: outv, Call: call, Return: ret})
		hmu.Unlock()
	}
	pick := func() []string {
		n := rnd(5)
		var s []string
		for i := 0; i < n; i++ {
			s = append(s, universe[rnd(len(universe))])
		}
		// empty strings and duplicates anywhere in the list
		insert := func(v string) {
			i := rnd(len(s) + 1)
			s = append(s[:i], append([]string{v}, s[i:]...)...)
		}
		if rnd(3) == 0 {
			insert("")
		}
		if rnd(6) == 0 {
			insert("")
		}
		if rnd(3) == 0 && len(s) > 0 {
			insert(s[rnd(len(s))])
		}
		return s
	}
	// Only the controller calls Update, so right after Update returns the
	// client's target table (hook H2) must hold exactly the distinct non-empty
	// strings of the list just supplied.
	checkTargets := func(supplied []string) {
		var have []string
		for a := range c.VerifLatencies() {
			have = append(have, a)
		}
		if got, want := canonSet(have), canonSet(supplied); got != want || len(have) != len(strings.Split(want, ","))-int(b2i(want == "")) {
			out.Findings = append(out.Findings, scen.Finding{Prop: "C16", FSig: "C16/route/target-table", What: fmt.Sprintf("after Update(%q) returned the client's target table holds {%s}, expected the distinct non-empty strings {%s}", supplied, got, want)})
		}
	}
	first := pick()
	call := svc.Stamp()
	c.Update(first...)
	addOp(0, routeIn{Kind: "update", Set: canonSet(first)}, nil, call, svc.Stamp())
	checkTargets(first)
	nCallers := 1 + rng.Intn(7)
	var running int32
	var token uint64
	type pend struct {
		client int
		call   int64
		tok    uint64
	}
	var pmu sync.Mutex
	var pends []pend
	forms := []string{"Call", "Go", "RoundTrip", "CallWithContext", "NewStream"}
	for k := 0; k < nCallers; k++ {
		k := k
		atomic.AddInt32(&running, 1)
		go func() {
			defer atomic.AddInt32(&running, -1)
			n := 5 + rnd(15)
			for i := 0; i < n; i++ {
				time.Sleep(time.Duration(rnd(120)) * time.Millisecond)
				tok := atomic.AddUint64(&token, 1)
				pmu.Lock()
				pends = append(pends, pend{k + 1, svc.Stamp(), tok})
				pmu.Unlock()
				arg := tok
				switch forms[rnd(len(forms))] {
				case "Call":
					c.Call("m", &arg, nil)
				case "Go":
					cl := c.Go("m", &arg, nil, make(chan *rpc.Call, 1))
					<-cl.Done
				case "RoundTrip":
					cl := c.RoundTrip(&rpc.Call{ServiceMethod: "m", Args: &arg, Done: make(chan *rpc.Call, 1)})
					<-cl.Done
				case "CallWithContext":
					c.CallWithContext(context.Background(), "m", &arg, nil)
				case "NewStream":
					c.NewStream(fmt.Sprintf("tok-%d", tok))
				}
			}
		}()
	}
	// controller: Update and Director changes
	atomic.AddInt32(&running, 1)
	go func() {
		defer atomic.AddInt32(&running, -1)
		n := 3 + rnd(8)
		for i := 0; i < n; i++ {
			time.Sleep(time.Duration(rnd(400)) * time.Millisecond)
			if rnd(4) == 0 {
				d := ""
				if rnd(2) == 0 {
					d = []string{"dir-x", "dir-y"}[rnd(2)]
				}
				director.Store(d)
				continue
			}
			s := pick()
			call := svc.Stamp()
			c.Update(s...)
			addOp(0, routeIn{Kind: "update", Set: canonSet(s)}, nil, call, svc.Stamp())
			checkTargets(s)
		}
	}()
	fin := vEnv{}.Settle(func() bool { return atomic.LoadInt32(&running) == 0 }, time.Hour)
	c.Close()
	synctest.Wait()
	if !fin {
		out.Inconclusive = "callers did not finish within a virtual hour"
		return out
	}
	// route operations: call stamp at the API, return stamp at the arrival.
	// The Director is consulted once per call at a moment of the client's
	// choosing, so its result is not a linearizable register: a route to the
	// Director's address is legal iff the Director returned that address
	// during the call; routes to anything else go to porcupine.
	byTok := map[uint64]arrival{}
	for _, a := range f.snapshot() {
		if a.token != 0 {
			byTok[a.token] = a
		}
	}
	routes := 0
	for _, p := range pends {
		if a, ok := byTok[p.tok]; ok {
			if a.addr == "" {
				continue // no target: the client passed the empty address on to fail the call
			}
			if strings.HasPrefix(a.addr, "dir-") {
				ok := false
				dmu.Lock()
				for _, d := range dlog {
					if d.val == a.addr && d.stamp > p.call && d.stamp < a.stamp {
						ok = true
					}
				}
				dmu.Unlock()
				if !ok {
					out.Findings = append(out.Findings, scen.Finding{Prop: "C16", FSig: "C16/route/director-address", What: fmt.Sprintf("a call was routed to %q although the Director did not return that address during the call", a.addr)})
				}
				out.Stats["director_routes"]++
				continue
			}
			addOp(p.client, routeIn{Kind: "route"}, a.addr, p.call, a.stamp)
			routes++
		}
	}
	out.Stats["route_ops"] = int64(routes)
	out.Stats["history_ops"] = int64(len(ops))
	res, info := porcupine.CheckOperationsVerbose(routeModel, ops, 60*time.Second)
	switch res {
	case porcupine.Unknown:
		out.Inconclusive = "porcupine timed out after 60 s"
	case porcupine.Illegal:
		// find a route that is in no target set ever supplied before its arrival and is not the director: a direct witness
		w := describeIllegal(ops, info)
		out.Findings = append(out.Findings, scen.Finding{Prop: "C16", FSig: "C16/route/not-linearizable", What: "the history of Update / Director / route operations is not linearizable against the model 'a call is routed to a member of the most recently supplied target set (or to the Director's non-empty result)': " + w})
	}
	out.Sig = fmt.Sprintf("route/%d/callers=%d/ops=%d/policy=%d", idx, nCallers, len(ops), c.Scheduling)
	out.Nontrivial = routes > 1
	return out
}

func describeIllegal(ops []porcupine.Operation, info porcupine.LinearizationInfo) string {
	sort.Slice(ops, func(i, j int) bool { return ops[i].Call < ops[j].Call })
	var sb strings.Builder
	n := 0
	for _, o := range ops {
		in := o.Input.(routeIn)
		if n > 60 {
			sb.WriteString(" …")
			break
		}
		n++
		sb.WriteString(fmt.Sprintf(" [%d..%d c%d %s]", o.Call, o.Return, o.ClientId, routeModel.DescribeOperation(in, o.Output)))
	}
	return sb.String()
}

// ------------------------------------------------------------ C17 policy ---

const maxLatency = int64(time.Minute)

func runPolicy(seed int64, idx int) *scen.Outcome {
	out := &scen.Outcome{Stats: map[string]int64{}}
	bad := func(fsig, what string) {
		if len(out.Findings) < 6 {
			out.Findings = append(out.Findings, scen.Finding{Prop: "C17", FSig: fsig, What: what})
		}
	}
	rng := rand.New(rand.NewSource(seed*7727 + int64(idx)*29))
	n := 2 + rng.Intn(7)
	var addrs []string
	for i := 0; i < n; i++ {
		addrs = append(addrs, fmt.Sprintf("t%d", i))
	}
	policy := rpc.Scheduling(idx % 3)
	alpha := []float64{0.1, 0.5, 0.8, 0.99}[rng.Intn(4)]
	tick := []time.Duration{10 * time.Millisecond, 100 * time.Millisecond, time.Second}[rng.Intn(3)]
	profile := rng.Intn(3) // constant, swapped mid-run, drifting
	base := map[string]time.Duration{}
	for _, a := range addrs {
		base[a] = time.Duration(1+rng.Intn(40)) * time.Millisecond
	}
	f := &fakeRT{t0: time.Now(), down: map[string][]downIv{}}
	swapAt := time.Duration(2+rng.Intn(5)) * time.Second
	f.latency = func(addr string, at time.Duration) time.Duration {
		d := base[addr]
		switch profile {
		case 1:
			if at > swapAt {
				d = 45*time.Millisecond - d
			}
		case 2:
			d += time.Duration(int64(at/time.Second)) * time.Millisecond * time.Duration(1+len(addr)%3)
		}
		if d <= 0 {
			d = time.Millisecond
		}
		return d
	}
	// optionally one target refuses for a while in the middle (LeastTime reset-to-maximum clause)
	refuser := ""
	if policy == rpc.LeastTimeScheduling && rng.Intn(3) == 0 {
		refuser = addrs[rng.Intn(n)]
	}
	c := rpc.NewClient(nil)
	c.Transport = f
	c.Scheduling = policy
	c.Alpha = alpha
	c.Tick = tick
	c.DialTimeout = time.Second
	deadExtra := rng.Intn(3) == 0
	if deadExtra {
		// a configured target that never comes up: the live set stays stable,
		// but the detector keeps re-checking it every tick
		f.down["zz-dead"] = []downIv{{0, 1000 * time.Hour}}
		c.Update(append(append([]string{}, addrs...), "zz-dead")...)
	} else {
		c.Update(addrs...)
	}
	// let the detector find every target
	time.Sleep(250 * time.Millisecond)
	synctest.Wait()
	// call spacing co-prime with Tick so that no call lands exactly on a probe boundary
	spacing := []time.Duration{3 * time.Millisecond, 7 * time.Millisecond, 13 * time.Millisecond, 37 * time.Millisecond, 71 * time.Millisecond}[rng.Intn(5)]
	ncalls := 120 + rng.Intn(100)
	shadow := map[string]int64{}
	for _, a := range addrs {
		shadow[a] = maxLatency
	}
	var lastProbe time.Time // zero: the first LeastTime call is a probe
	var seq []string
	var probeSeq []string
	probes, nonprobes := 0, 0
	refuseFrom, refuseTo := time.Duration(0), time.Duration(0)
	fallbackAt, fallbacks := -1, 0
	if policy == rpc.LeastTimeScheduling && rng.Intn(3) == 0 {
		fallbackAt = ncalls / 3
	}
	for i := 0; i < ncalls; i++ {
		time.Sleep(spacing + time.Duration(rng.Intn(3))*time.Microsecond)
		if refuser != "" && i == ncalls/2 {
			refuseFrom = f.now()
			refuseTo = refuseFrom + 50*time.Millisecond
			f.mu.Lock()
			f.down[refuser] = append(f.down[refuser], downIv{refuseFrom, refuseTo})
			f.mu.Unlock()
		}
		if fallbackAt == i {
			// routing is paused: this call is parked inside the Client and
			// released after the pause; what it waited there is not latency
			c.Fallback(time.Duration(30+rng.Intn(250)) * time.Millisecond)
			fallbacks++
		}
		before := len(f.snapshot())
		var arg uint64 = uint64(i + 1)
		err := c.Call("m", &arg, nil)
		arr := f.snapshot()[before:]
		var mine *arrival
		for k := range arr {
			if arr[k].token == arg {
				mine = &arr[k]
			}
		}
		if mine == nil {
			bad("C17/policy/no-route", fmt.Sprintf("call %d returned %v without reaching the transport although %d targets are live", i, err, n))
			break
		}
		addr := mine.addr
		// the moment the call was scheduled is the moment it reached the
		// transport (virtual time), and the duration the Client observes is
		// the scripted latency of that target
		start := f.t0.Add(mine.at)
		elapsed := f.lat(addr, mine.at)
		if err == rpc.ErrDial {
			elapsed = 0
		}
		seq = append(seq, addr)
		if _, ok := shadow[addr]; !ok {
			bad("C17/policy/non-live-target", fmt.Sprintf("call %d was routed to %q which is not a live target (%v)", i, addr, addrs))
			break
		}
		if policy == rpc.LeastTimeScheduling {
			isProbe := lastProbe.Add(tick).Before(start)
			if isProbe {
				lastProbe = start
				probes++
				probeSeq = append(probeSeq, addr)
			} else {
				nonprobes++
				min := int64(1<<62 - 1)
				for _, v := range shadow {
					if v < min {
						min = v
					}
				}
				if shadow[addr] != min {
					bad("C17/policy/not-least", fmt.Sprintf("LeastTime call %d (not a probe: last probe %v ago, Tick %v) went to %s whose estimate is %d ns while the minimum is %d ns (estimates %v)",
						i, start.Sub(lastProbe), tick, addr, shadow[addr], min, shadow))
				}
			}
			// EWMA update with the measured duration, which in virtual time is the scripted latency
			if err == rpc.ErrDial {
				shadow[addr] = maxLatency
			} else if shadow[addr] >= maxLatency {
				shadow[addr] = int64(elapsed)
			} else {
				shadow[addr] = int64(float64(shadow[addr])*alpha + float64(int64(elapsed))*(1-alpha))
			}
			got := c.VerifLatencies()
			for a, want := range shadow {
				// the moving average is specified, not its floating-point evaluation
				// order: tolerate a few nanoseconds and follow the observed value
				if d := got[a] - want; d >= -3 && d <= 3 {
					shadow[a] = got[a]
					continue
				}
				if got[a] != want {
					bad("C17/policy/estimate", fmt.Sprintf("after call %d (to %s, %v, err %v) the estimate of %s is %d ns, the documented moving average (alpha %v) gives %d ns", i, addr, elapsed, err, a, got[a], alpha, want))
					break
				}
			}
			if err == rpc.ErrDial {
				// the target leaves the live set; stop judging rotation/minimality until it is back
				time.Sleep(400 * time.Millisecond)
				synctest.Wait()
				// the detector's failed pings keep the estimate at the maximum; a successful ping brings the target back
				for a := range shadow {
					shadow[a] = c.VerifLatencies()[a]
				}
				probeSeq = nil
				// the rebuilt list restarts the cursor; re-learn it
			}
		}
		if len(out.Findings) > 0 {
			break
		}
	}
	mainCalls := len(seq)
	if deadExtra && policy != rpc.LeastTimeScheduling && len(out.Findings) == 0 {
		// Epilogue: the live set changes its members but not its size within
		// one detection round - a live target starts refusing just as the
		// target that was down from the start comes up. Once the client has
		// seen the victim refuse a call and two detection rounds have passed,
		// "only picks live targets" / "n distinct [live] targets" must hold
		// for the new set.
		const tickD = 100 * time.Millisecond
		victim := addrs[rng.Intn(n)]
		for a := range base {
			base[a] = time.Millisecond
		}
		profile = 0
		T := f.now()
		f.mu.Lock()
		f.down[victim] = append(f.down[victim], downIv{T, 1000 * time.Hour})
		f.down["zz-dead"] = []downIv{{0, T}}
		f.mu.Unlock()
		firstFail := time.Duration(-1)
		late := 0
		var lateSeq []string
		for i := 0; i < 12*n+40; i++ {
			if i == 2*n {
				time.Sleep(3*tickD + 20*time.Millisecond)
			}
			before := len(f.snapshot())
			var arg uint64 = uint64(1000000 + i)
			err := c.Call("m", &arg, nil)
			for _, a := range f.snapshot()[before:] {
				if a.token != arg {
					continue
				}
				if a.addr == victim {
					if firstFail < 0 {
						firstFail = a.at
					} else if a.at > firstFail+2*tickD+5*time.Millisecond {
						late++
					}
				}
				if i >= 2*n {
					lateSeq = append(lateSeq, a.addr)
				}
			}
			_ = err
		}
		if late > 0 {
			bad("C17/policy/dead-target-picked", fmt.Sprintf("policy %d: %d calls were still routed to %s later than two detection rounds after the client first saw it refuse a call (+%v), while %d other targets incl. the recovered one were live; routes after the swap settled: %v", policy, late, victim, firstFail, n, lateSeq[:min(len(lateSeq), 24)]))
		} else if firstFail >= 0 {
			used := false
			for _, a := range lateSeq {
				if a == "zz-dead" {
					used = true
				}
			}
			if !used {
				bad("C17/policy/recovered-target-unused", fmt.Sprintf("policy %d: the target that came up at +%v was never picked in %d calls made three detection rounds later, although it is live (routes %v)", policy, T, len(lateSeq), lateSeq[:min(len(lateSeq), 24)]))
			}
		}
		out.Stats["membership_swaps"]++
	}
	seq = seq[:mainCalls]
	c.Close()
	synctest.Wait()
	switch policy {
	case rpc.RoundRobinScheduling:
		for i := 0; i+n <= len(seq); i++ {
			seen := map[string]bool{}
			for _, a := range seq[i : i+n] {
				seen[a] = true
			}
			if len(seen) != n {
				bad("C17/policy/roundrobin-window", fmt.Sprintf("RoundRobin with %d live targets: calls %d..%d went to only %d distinct targets: %v", n, i, i+n-1, len(seen), seq[i:i+n]))
				break
			}
		}
	case rpc.LeastTimeScheduling:
		// probes in rotation: n consecutive probes hit n distinct targets in a fixed cyclic order
		for i := 0; i+n <= len(probeSeq); i++ {
			seen := map[string]bool{}
			for _, a := range probeSeq[i : i+n] {
				seen[a] = true
			}
			if len(seen) != n {
				bad("C17/policy/probe-rotation", fmt.Sprintf("LeastTime probes are not in rotation: probes %d..%d went to %v", i, i+n-1, probeSeq[i:i+n]))
				break
			}
		}
		for i := 0; i+n < len(probeSeq); i++ {
			if probeSeq[i] != probeSeq[i+n] {
				bad("C17/policy/probe-rotation", fmt.Sprintf("LeastTime probe order is not cyclic: probe %d went to %s, probe %d to %s", i, probeSeq[i], i+n, probeSeq[i+n]))
				break
			}
		}
	}
	out.Stats["calls"] = int64(len(seq))
	out.Stats["probes"] = int64(probes)
	out.Stats["non_probe_calls"] = int64(nonprobes)
	out.Stats["calls_parked_by_fallback"] = int64(fallbacks)
	distinct := map[string]bool{}
	for _, a := range seq {
		distinct[a] = true
	}
	out.Stats["max_distinct_targets_used"] = int64(len(distinct))
	out.Sig = fmt.Sprintf("policy/%d/n=%d/alpha=%v/tick=%v/profile=%d/spacing=%v/refuser=%v/dead=%v/%s", policy, n, alpha, tick, profile, spacing, refuser != "", deadExtra, svc.SumHex([]byte(strings.Join(seq, ""))))
	out.Nontrivial = len(seq) > n
	return out
}

// ---------------------------------------------------------- C18 failover ---

type fcall struct {
	form    string
	start   time.Duration
	end     time.Duration
	err     error
	addr    string
	reached bool
	done    int32
	tok     uint64
}

func runFailover(seed int64, idx int) *scen.Outcome {
	out := &scen.Outcome{Stats: map[string]int64{}}
	rng := rand.New(rand.NewSource(seed*9001 + int64(idx)*31))
	var rmu sync.Mutex
	rnd := func(n int) int { rmu.Lock(); defer rmu.Unlock(); return rng.Intn(n) }
	bad := func(fsig, what string) {
		rmu.Lock()
		if len(out.Findings) < 8 {
			out.Findings = append(out.Findings, scen.Finding{Prop: "C18", FSig: fsig, What: what})
		}
		rmu.Unlock()
	}
	const tickD = 100 * time.Millisecond
	dialTO := []time.Duration{50 * time.Millisecond, 300 * time.Millisecond, 5 * time.Second}[rng.Intn(3)]
	f := &fakeRT{t0: time.Now(), down: map[string][]downIv{}, pingLat: time.Duration(rng.Intn(4)) * time.Millisecond}
	f.latency = func(string, time.Duration) time.Duration { return 2 * time.Millisecond }
	variant := []string{"waiters", "failover", "close", "fallback", "update"}[idx%5]
	sub := idx / 5
	n := 2 + rng.Intn(3)
	var addrs []string
	for i := 0; i < n; i++ {
		addrs = append(addrs, fmt.Sprintf("h%d", i))
	}
	desc := fmt.Sprintf("variant=%s targets=%d DialTimeout=%v pingLatency=%v", variant, n, dialTO, f.pingLat)
	var upAt time.Duration = -1
	sleeper := "" // failover variant: a target that is down from the start
	switch variant {
	case "waiters", "close", "fallback":
		if variant != "fallback" {
			// nobody is up at the start; maybe one target comes up later
			for _, a := range addrs {
				f.down[a] = []downIv{{0, time.Hour}}
			}
			if variant == "waiters" && rng.Intn(3) != 0 {
				upAt = time.Duration(20+rng.Intn(int(dialTO/time.Millisecond)*2+200)) * time.Millisecond
				f.down[addrs[0]] = []downIv{{0, upAt}}
			}
		}
	case "failover":
		if n >= 3 && rng.Intn(2) == 0 {
			sleeper = addrs[rng.Intn(n)]
			f.down[sleeper] = []downIv{{0, time.Hour}}
		}
	}
	c := rpc.NewClient(nil)
	c.Transport = f
	c.Scheduling = rpc.Scheduling(rng.Intn(3))
	c.DialTimeout = dialTO
	if rng.Intn(2) == 0 {
		rpc.VerifSetHook(func(point string) {
			if point == "client.beforeWait" {
				time.Sleep(time.Duration(rnd(250)) * time.Millisecond)
			}
		})
		desc += " hook=beforeWait"
	} else {
		rpc.VerifSetHook(nil)
	}
	defer rpc.VerifSetHook(nil)
	c.Update(addrs...)
	var cmu sync.Mutex
	var calls []*fcall
	var token uint64
	forms := []string{"Call", "CallWithContext", "Go", "RoundTrip", "Ping", "NewStream"}
	do := func(form string) *fcall {
		fc := &fcall{form: form, tok: atomic.AddUint64(&token, 1)}
		cmu.Lock()
		calls = append(calls, fc)
		cmu.Unlock()
		arg := fc.tok
		fc.start = f.now()
		switch form {
		case "Call":
			fc.err = c.Call("m", &arg, nil)
		case "CallWithContext":
			fc.err = c.CallWithContext(context.Background(), "m", &arg, nil)
		case "Go":
			cl := c.Go("m", &arg, nil, make(chan *rpc.Call, 1))
			<-cl.Done
			fc.err = cl.Error
		case "RoundTrip":
			cl := c.RoundTrip(&rpc.Call{ServiceMethod: "m", Args: &arg, Done: make(chan *rpc.Call, 1)})
			<-cl.Done
			fc.err = cl.Error
		case "Ping":
			fc.err = c.Ping()
		case "NewStream":
			_, fc.err = c.NewStream(fmt.Sprintf("tok-%d", fc.tok))
		}
		fc.end = f.now()
		atomic.StoreInt32(&fc.done, 1)
		return fc
	}
	var running int32
	spawn := func(fn func()) {
		atomic.AddInt32(&running, 1)
		go func() { defer atomic.AddInt32(&running, -1); fn() }()
	}
	var closeAt time.Duration = -1
	var fbFrom, fbTo time.Duration = -1, -1
	switch variant {
	case "waiters", "close":
		w := 1 + rnd(64)
		for k := 0; k < w; k++ {
			form := forms[rnd(len(forms))]
			delay := time.Duration(rnd(150)) * time.Millisecond
			spawn(func() { time.Sleep(delay); do(form) })
		}
		if variant == "close" {
			closeAt = time.Duration(rnd(int(dialTO/time.Millisecond)+200)) * time.Millisecond
			spawn(func() {
				time.Sleep(closeAt)
				closeAt = f.now()
				c.Close()
				if r := c.Close(); r != nil {
					bad("C20/client-close-twice", fmt.Sprintf("second Client.Close returned %v", r))
				}
				// calls after Close fail at once
				for _, form := range forms {
					fc := do(form)
					if fc.end != fc.start {
						bad("C18/failover/after-close-slow", fmt.Sprintf("%s after Close took %v of virtual time (%s)", form, fc.end-fc.start, desc))
					}
					if fc.err == nil || ((form == "Call" || form == "CallWithContext") && fc.err != rpc.ErrShutdown) {
						bad("C18/failover/after-close-error", fmt.Sprintf("%s after Close returned %v (%s)", form, fc.err, desc))
					}
				}
			})
		}
	case "fallback":
		// all targets healthy; Fallback pauses routing for d
		time.Sleep(250 * time.Millisecond)
		d := time.Duration(50+rnd(400)) * time.Millisecond
		fbFrom = f.now()
		fbTo = fbFrom + d
		c.Fallback(d)
		if sub%2 == 1 {
			// a second pause requested while the first is still in effect
			// (two callers backing off): routing resumes when both have ended
			d2 := time.Duration(50+rnd(400)) * time.Millisecond
			spawn(func() {
				time.Sleep(d / 2)
				c.Fallback(d2)
			})
			if end := fbFrom + d/2 + d2; end > fbTo {
				fbTo = end
			}
			desc += " overlapping-pauses"
		}
		w := 1 + rnd(16)
		for k := 0; k < w; k++ {
			form := forms[rnd(len(forms))]
			delay := time.Duration(rnd(int(d/time.Millisecond)+100)) * time.Millisecond
			spawn(func() { time.Sleep(delay); do(form) })
		}
	case "update":
		// Every target is healthy for the whole history; the target set is replaced
		// again and again (same set, subset, superset) while calls are in flight
		// on every target. After an Update the live set is empty until the next
		// detection round; the parked callers must be released by it, and the
		// Client must route again afterwards.
		f.latency = func(string, time.Duration) time.Duration { return time.Duration(1+rnd(45)) * time.Millisecond }
		time.Sleep(250 * time.Millisecond)
		callers := 2*n + rnd(8)
		nUpd := 2 + rnd(6)
		var umu sync.Mutex
		var updates []time.Duration
		var lastU time.Duration = -1
		var updDone int32
		pool := append(append([]string{}, addrs...), "h9")
		spawn(func() {
			for u := 0; u < nUpd; u++ {
				time.Sleep(time.Duration(250+rnd(400)) * time.Millisecond)
				var set []string
				switch rnd(3) {
				case 0:
					set = append(set, addrs...)
				default:
					for _, a := range pool {
						if rnd(2) == 0 {
							set = append(set, a)
						}
					}
					if len(set) == 0 {
						set = append(set, pool[rnd(len(pool))])
					}
				}
				umu.Lock()
				updates = append(updates, f.now())
				umu.Unlock()
				c.Update(set...)
				umu.Lock()
				lastU = f.now()
				umu.Unlock()
			}
			atomic.StoreInt32(&updDone, 1)
		})
		uforms := []string{"Call", "CallWithContext", "Go", "RoundTrip", "NewStream"}
		for k := 0; k < callers; k++ {
			spawn(func() {
				for {
					if atomic.LoadInt32(&updDone) == 1 {
						umu.Lock()
						stop := f.now() > lastU+1500*time.Millisecond
						umu.Unlock()
						if stop {
							return
						}
					}
					do(uforms[rnd(len(uforms))])
					time.Sleep(time.Duration(rnd(10)) * time.Millisecond)
				}
			})
		}
		fin := vEnv{}.Settle(func() bool { return atomic.LoadInt32(&running) == 0 }, time.Hour)
		if !fin {
			out.Inconclusive = "update callers did not finish"
		}
		desc += fmt.Sprintf(" callers=%d updates=%d", callers, nUpd)
		const eps = time.Millisecond
		hookSlack := time.Duration(0)
		if strings.Contains(desc, "hook=") {
			hookSlack = 250 * time.Millisecond
		}
		round := 2*tickD + f.pingLat + eps // a detection round that no Update can disturb (Updates are >= 250 ms apart)
		byTok := map[uint64]arrival{}
		for _, a := range f.snapshot() {
			if a.token != 0 {
				byTok[a.token] = a
			}
		}
		atUpdate := func(t time.Duration) bool {
			for _, u := range updates {
				if t == u {
					return true
				}
			}
			return false
		}
		var routed, parked, sameInstant int64
		for _, fc := range calls {
			if atomic.LoadInt32(&fc.done) == 0 {
				bad("C18/failover/stranded", fmt.Sprintf("%s started at +%v is still waiting after a virtual hour (%s)", fc.form, fc.start, desc))
				break
			}
			a, reached := byTok[fc.tok]
			if reached && a.addr == "" {
				reached = false
			}
			wait := fc.end - fc.start
			if reached {
				routed++
				if a.at > fc.start {
					parked++
				}
				if a.at > fc.start+hookSlack+round {
					bad("C18/failover/update-late-release", fmt.Sprintf("%s (started +%v) was routed only at +%v although every target was healthy; a caller parked after an Update must be released by the next undisturbed detection round (%v) (%s)", fc.form, fc.start, a.at, round, desc))
				}
				if fc.err != nil {
					bad("C18/failover/unexpected-error", fmt.Sprintf("%s routed to healthy %s returned %v (%s)", fc.form, a.addr, fc.err, desc))
				}
				continue
			}
			if atUpdate(fc.end) {
				// released and then found the set replaced in the same virtual instant: not judged
				sameInstant++
				continue
			}
			if fc.err == nil {
				bad("C18/failover/timeout-nil", fmt.Sprintf("%s that was not routed completed without error (%s)", fc.form, desc))
			}
			if wait > dialTO+hookSlack+eps {
				bad("C18/failover/waited-too-long", fmt.Sprintf("%s waited %v, DialTimeout is %v (%s)", fc.form, wait, dialTO, desc))
			}
			if wait < dialTO {
				bad("C18/failover/update-failed-early", fmt.Sprintf("%s started +%v failed with %v after %v, before DialTimeout %v, with every target healthy (%s)", fc.form, fc.start, fc.err, wait, dialTO, desc))
			} else if dialTO > round {
				bad("C18/failover/update-not-released", fmt.Sprintf("%s started +%v waited until its DialTimeout (%v) and failed with %v although every target was healthy throughout and a full detection round (%v) fits into the wait; Updates at %v (%s)", fc.form, fc.start, dialTO, fc.err, round, updates, desc))
			} else if fc.start > lastU+round {
				bad("C18/failover/update-never-recovers", fmt.Sprintf("%s started +%v, more than a detection round after the last Update (+%v), was not routed (%v) although every target was healthy (%s)", fc.form, fc.start, lastU, fc.err, desc))
			}
		}
		out.Stats["calls"] = int64(len(calls))
		out.Stats["update_routed"] = routed
		out.Stats["update_parked_then_routed"] = parked
		out.Stats["update_same_instant_not_judged"] = sameInstant
		if parked == 0 && routed > 0 {
			out.Stats["update_histories_without_parked_caller"] = 1
		}
		c.Close()
		synctest.Wait()
		out.Sig = "failover/" + desc
		out.Nontrivial = routed > 0 || len(calls) > 0
		return out
	case "failover":
		// everybody healthy; one target starts refusing at T and recovers later; a steady sequential caller
		time.Sleep(250 * time.Millisecond)
		victim := addrs[rnd(n)]
		for victim == sleeper {
			victim = addrs[rnd(n)]
		}
		failFrom := f.now() + time.Duration(50+rnd(300))*time.Millisecond
		failTo := failFrom + time.Duration(300+rnd(1500))*time.Millisecond
		f.mu.Lock()
		f.down[victim] = []downIv{{failFrom, failTo}}
		f.mu.Unlock()
		desc += fmt.Sprintf(" victim=%s refuses [%v,%v)", victim, failFrom, failTo)
		// the steady caller either makes calls or only opens streams
		streamsOnly := sub%3 == 2
		if streamsOnly {
			desc += " steady-caller=NewStream"
		}
		if sleeper != "" {
			// the target that was down from the start recovers just when the
			// victim goes down, and its (fast) check completes before the
			// victim's slow refusal: the live set changes but keeps its size
			f.mu.Lock()
			f.down[sleeper] = []downIv{{0, failFrom + time.Duration(rnd(40))*time.Millisecond}}
			f.refuseLat = 60 * time.Millisecond
			f.mu.Unlock()
			desc += " swap-in=" + sleeper
		}
		spawn(func() {
			for f.now() < failTo+1500*time.Millisecond {
				// user Pings carry no token and cannot be told from detector
				// pings at the transport, so the steady caller does not use them
				if streamsOnly {
					do("NewStream")
				} else {
					do([]string{"Call", "CallWithContext"}[rnd(2)])
				}
				time.Sleep(time.Duration(3+rnd(15)) * time.Millisecond)
			}
		})
		fin := vEnv{}.Settle(func() bool { return atomic.LoadInt32(&running) == 0 }, time.Hour)
		if !fin {
			out.Inconclusive = "failover caller did not finish"
		}
		arr := f.snapshot()
		var firstFail time.Duration = -1
		usedAfterRecovery := false
		lateRoutes := 0
		for _, a := range arr {
			if a.token == 0 || a.addr != victim {
				continue
			}
			if a.at >= failFrom && a.at < failTo {
				if firstFail < 0 {
					firstFail = a.at
				}
				if a.at > firstFail+2*tickD+f.pingLat+f.refuseLat+time.Millisecond {
					lateRoutes++
				}
			}
			if a.at >= failTo {
				usedAfterRecovery = true
			}
		}
		out.Stats["failover_user_routes_to_victim_while_down"] = int64(lateRoutes)
		if lateRoutes > 0 {
			bad("C18/failover/detection", fmt.Sprintf("%d user calls were still routed to the refusing target later than first failure (+%v) + 2 ticks + ping latency while %d other targets were healthy (%s)", lateRoutes, firstFail, n-1, desc))
		}
		if !usedAfterRecovery {
			bad("C18/failover/recovery", fmt.Sprintf("the recovered target received no user call in the 1.5 s after it came back (%s)", desc))
		}
		if strings.Contains(desc, "swap-in=") {
			used := false
			for _, a := range arr {
				if a.token != 0 && a.addr == sleeper && a.at > failFrom {
					used = true
				}
			}
			if !used {
				bad("C18/failover/recovery-swap", fmt.Sprintf("target %s recovered while %s went down, but received no user call in the following %v (%s)", sleeper, victim, failTo+1500*time.Millisecond-failFrom, desc))
			}
		}
		for _, fc := range calls {
			if fc.err != nil && fc.err != rpc.ErrDial {
				bad("C18/failover/unexpected-error", fmt.Sprintf("%s returned %v while healthy targets existed (%s)", fc.form, fc.err, desc))
			}
		}
		c.Close()
		synctest.Wait()
		out.Sig = "failover/" + desc
		out.Nontrivial = true
		out.Stats["calls"] = int64(len(calls))
		return out
	}
	fin := vEnv{}.Settle(func() bool { return atomic.LoadInt32(&running) == 0 }, time.Hour)
	if !fin {
		for _, fc := range calls {
			if atomic.LoadInt32(&fc.done) == 0 {
				bad("C18/failover/stranded", fmt.Sprintf("%s started at +%v is still waiting after a virtual hour (DialTimeout %v) (%s)", fc.form, fc.start, dialTO, desc))
				break
			}
		}
	}
	byTok := map[uint64]arrival{}
	for _, a := range f.snapshot() {
		if a.token != 0 {
			byTok[a.token] = a
		}
	}
	for _, fc := range calls {
		if atomic.LoadInt32(&fc.done) == 0 {
			continue
		}
		wait := fc.end - fc.start
		if closeAt >= 0 && fc.start >= closeAt {
			continue // judged above
		}
		a, reached := byTok[fc.tok]
		if fc.form == "Ping" {
			reached = fc.err == nil
		} else if reached && a.addr == "" {
			reached = false
		}
		out.Stats["calls"]++
		if wait > dialTO+2*time.Millisecond+250*time.Millisecond {
			bad("C18/failover/waited-too-long", fmt.Sprintf("%s waited %v, DialTimeout is %v (%s)", fc.form, wait, dialTO, desc))
		}
		switch variant {
		case "waiters", "close":
			const eps = time.Millisecond
			hookSlack := time.Duration(0)
			if strings.Contains(desc, "hook=") {
				hookSlack = 250 * time.Millisecond
			}
			relAt := upAt // -1: no target ever comes up
			strict := fc.form == "Call" || fc.form == "CallWithContext"
			timeoutLo, timeoutHi := fc.start+dialTO, fc.start+dialTO+hookSlack+eps
			relDeadline := time.Duration(-1)
			if relAt >= 0 {
				relDeadline = max(relAt, fc.start+hookSlack) + tickD + f.pingLat + eps
			}
			switch {
			case reached:
				if relAt < 0 {
					bad("C18/failover/routed-with-no-live-target", fmt.Sprintf("%s reached the transport although no target was ever up (%s)", fc.form, desc))
				} else if fc.form != "Ping" && (a.at < relAt || a.at > relDeadline) {
					bad("C18/failover/late-release", fmt.Sprintf("%s (started +%v) was routed at +%v; the target came up at +%v and waiters must be released within one tick (%v) plus the ping latency (%s)", fc.form, fc.start, a.at, relAt, tickD, desc))
				}
			case closeAt >= 0 && fc.end >= closeAt && fc.end <= max(closeAt, fc.start+hookSlack)+eps:
				// released by Close (or registered after it)
				if strict && fc.err != rpc.ErrShutdown && !(fc.err == rpc.ErrTimeout && fc.end >= timeoutLo && fc.end <= timeoutHi) {
					bad("C18/failover/close-error", fmt.Sprintf("%s waiting when the Client was closed at +%v returned %v at +%v, expected ErrShutdown (%s)", fc.form, closeAt, fc.err, fc.end, desc))
				} else if fc.err == nil {
					bad("C18/failover/close-nil", fmt.Sprintf("%s waiting when the Client was closed completed without error (%s)", fc.form, desc))
				}
			case fc.end >= timeoutLo && fc.end <= timeoutHi:
				// the DialTimeout fired
				if strict && fc.err != rpc.ErrTimeout {
					bad("C18/failover/timeout-error", fmt.Sprintf("%s that found no live target returned %v at its DialTimeout instant, expected ErrTimeout (%s)", fc.form, fc.err, desc))
				} else if fc.err == nil {
					bad("C18/failover/timeout-nil", fmt.Sprintf("%s that found no live target completed without error (%s)", fc.form, desc))
				}
				if relDeadline >= 0 && relDeadline < timeoutLo-eps {
					bad("C18/failover/not-released", fmt.Sprintf("%s (started +%v) timed out at +%v although a target came up at +%v, more than one tick plus the ping latency earlier (%s)", fc.form, fc.start, fc.end, relAt, desc))
				}
				// A caller present at Close is released by it; one that registers after it is rejected at
				// registration, at the latest start+hookSlack. Either way it cannot still be waiting later.
				if closeAt >= 0 && closeAt < timeoutLo-eps && fc.end > max(closeAt, fc.start+hookSlack)+eps {
					bad("C18/failover/not-closed", fmt.Sprintf("%s (started +%v) waited until its DialTimeout at +%v although the Client was closed at +%v (%s)", fc.form, fc.start, fc.end, closeAt, desc))
				}
			default:
				bad("C18/failover/released-by-nothing", fmt.Sprintf("%s started +%v returned %v at +%v: no target was routed to, the Client was not closed then (closed at %v) and DialTimeout (%v) had not elapsed (due at +%v); target up at %v (%s)",
					fc.form, fc.start, fc.err, fc.end, closeAt, dialTO, timeoutLo, relAt, desc))
			}
		case "fallback":
			if !reached && fc.form != "Ping" {
				if wait < dialTO {
					bad("C18/failover/fallback-failed-early", fmt.Sprintf("%s during Fallback failed with %v after %v, before DialTimeout %v (%s)", fc.form, fc.err, wait, dialTO, desc))
				} else if fbTo+2*tickD+f.pingLat+5*time.Millisecond < fc.start+dialTO {
					// every target was live throughout: once the pause is over
					// (and a detection round has passed) a waiting caller is released
					bad("C18/failover/fallback-not-released", fmt.Sprintf("%s started +%v during a Fallback pause ending at +%v waited until its DialTimeout (+%v) and failed with %v although every target was live and the pause had ended more than two detection rounds earlier (%s)", fc.form, fc.start, fbTo, fc.end, fc.err, desc))
				}
			} else if reached && fc.form != "Ping" && a.at < fbTo && fc.start >= fbFrom {
				bad("C18/failover/fallback-ignored", fmt.Sprintf("%s was routed at +%v although Fallback lasts until +%v (%s)", fc.form, a.at, fbTo, desc))
			}
		}
	}
	c.Close()
	synctest.Wait()
	if variant == "close" {
		afterCloseWithDirector(rng, bad, desc)
	}
	out.Sig = fmt.Sprintf("failover/%d/%s/calls=%d", idx, desc, len(calls))
	out.Nontrivial = len(calls) > 0
	return out
}

// afterCloseWithDirector: "after Close every call fails at once" also holds
// for a Client that routes through its Director hook (with or without
// targets next to it): a call through the Director works before Close and
// every call form is refused afterwards, in zero time, with the error the
// statement names.
func afterCloseWithDirector(rng *rand.Rand, bad func(fsig, what string), desc string) {
	f := &fakeRT{t0: time.Now(), down: map[string][]downIv{}}
	c := rpc.NewClient(nil)
	c.Transport = f
	c.DialTimeout = 300 * time.Millisecond
	c.Director = func() string { return "dirhost" }
	withTargets := rng.Intn(2) == 0
	if withTargets {
		c.Update("h0", "h1")
		time.Sleep(250 * time.Millisecond)
	}
	desc = fmt.Sprintf("Director hook returning a live address, targets next to it=%v; %s", withTargets, desc)
	var arg uint64 = 1
	if err := c.Call("m", &arg, nil); err != nil {
		bad("C18/failover/director-call-before-close", fmt.Sprintf("Call through the Director hook failed with %v before Close (%s)", err, desc))
	}
	c.Close()
	if rng.Intn(2) == 0 {
		synctest.Wait()
	}
	before := len(f.snapshot())
	for _, form := range []string{"Call", "CallWithContext", "Go", "RoundTrip", "Ping", "NewStream"} {
		t0 := f.now()
		var err error
		switch form {
		case "Call":
			err = c.Call("m", &arg, nil)
		case "CallWithContext":
			err = c.CallWithContext(context.Background(), "m", &arg, nil)
		case "Go":
			cl := c.Go("m", &arg, nil, make(chan *rpc.Call, 1))
			<-cl.Done
			err = cl.Error
		case "RoundTrip":
			cl := c.RoundTrip(&rpc.Call{ServiceMethod: "m", Args: &arg, Done: make(chan *rpc.Call, 1)})
			<-cl.Done
			err = cl.Error
		case "Ping":
			err = c.Ping()
		case "NewStream":
			_, err = c.NewStream("tok-1")
		}
		if d := f.now() - t0; d != 0 {
			bad("C18/failover/after-close-slow", fmt.Sprintf("%s after Close took %v of virtual time (%s)", form, d, desc))
		}
		if err == nil || ((form == "Call" || form == "CallWithContext") && err != rpc.ErrShutdown) {
			bad("C18/failover/after-close-error", fmt.Sprintf("%s after Close returned %v (%s)", form, err, desc))
		}
	}
	for _, a := range f.snapshot()[before:] {
		// (the asynchronous forms are failed by handing them to the transport
		// with an empty address, which refuses them: that is not routing)
		if a.addr != "" && (a.op != "Ping" || a.addr == "dirhost") {
			bad("C18/failover/after-close-routed", fmt.Sprintf("%s was sent to %q after Client.Close (%s)", a.op, a.addr, desc))
			break
		}
	}
	synctest.Wait()
}

func policyEngine(a Args) {
	var x policyExtra
	json.Unmarshal(a.Extra, &x)
	if x.Class == "" {
		x.Class = "route"
	}
	for idx := a.From; idx < a.To; idx += a.Stride {
		cs := fmt.Sprintf("policy/%s/%d", x.Class, idx)
		if !wantCase(a, cs) {
			continue
		}
		mon.Progress("policy", cs)
		var o *scen.Outcome
		switch x.Class {
		case "route":
			o = runRoute(a.Seed, idx)
		case "policy":
			o = runPolicy(a.Seed, idx)
		default:
			o = runFailover(a.Seed, idx)
		}
		if idx%50 == 0 {
			o.Sample = map[string]interface{}{"scenario": o.Sig}
		}
		emit("policy", cs, a, o)
	}
}
