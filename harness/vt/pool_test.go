//go:build go1.25

package vt

import (
	"bytes"
	"context"
	"encoding/json"
	"fmt"
	"math/rand"
	"sync"
	"sync/atomic"
	"testing/synctest"
	"time"

	"github.com/hslam/rpc"
	"verif/harness/memnet"
	"verif/harness/mon"
	"verif/harness/rig"
	"verif/harness/scen"
	"verif/harness/svc"
	"verif/harness/wire"
)

// Engine "pool": a real Transport over memnet against real servers at several
// addresses, in virtual time, with housekeeping ticks, kill/restart events,
// CloseIdleConnections and hook H1 delays between getConn and the use of the
// connection. Decides C13, C14 and C15.

func init() { engines["pool"] = poolEngine }

type poolExtra struct {
	Class string `json:"class"` // limits | restart | busy
}

type poolParams struct {
	class     string
	seed      int64
	run       uint32
	nAddr     int
	maxConns  int
	maxIdle   int
	keepAlive time.Duration
	idleTO    time.Duration
	callers   int
	ops       int
	kills     bool
	longCalls bool
	hook      bool
	closeIdle bool
	streams   bool
	spacing   time.Duration // restart class: time between the sequential caller's calls
}

func (p poolParams) String() string {
	return fmt.Sprintf("%s addrs=%d max=%d idle=%d ka=%v ito=%v callers=%d ops=%d kills=%v long=%v hook=%v closeidle=%v streams=%v spacing=%v",
		p.class, p.nAddr, p.maxConns, p.maxIdle, p.keepAlive, p.idleTO, p.callers, p.ops, p.kills, p.longCalls, p.hook, p.closeIdle, p.streams, p.spacing)
}

func (p poolParams) effLimits() (int, int) {
	mc, mi := p.maxConns, p.maxIdle
	if mc < 1 {
		mc = rpc.DefaultMaxConnsPerHost
	}
	if mi < 1 {
		mi = rpc.DefaultMaxIdleConnsPerHost
	} else if mi > mc {
		mi = mc
	}
	return mc, mi
}

var poolLimits = [][2]int{{0, 0}, {-1, 5}, {1, 1}, {2, 5}, {3, 1}, {4, 2}, {8, 8}, {2, 2}, {5, 3}, {0, 3}, {0, 1}, {4, 0}, {3, -2}}

func genPool(seed int64, idx int, class string) poolParams {
	rng := rand.New(rand.NewSource(seed*9176 + int64(idx)*131 + int64(len(class))))
	p := poolParams{class: class, seed: rng.Int63(), run: uint32(idx + 1)}
	lim := poolLimits[rng.Intn(len(poolLimits))]
	p.maxConns, p.maxIdle = lim[0], lim[1]
	p.keepAlive = []time.Duration{1500 * time.Millisecond, 2 * time.Second, 3 * time.Second, 5 * time.Second}[rng.Intn(4)]
	p.idleTO = []time.Duration{time.Second, 2500 * time.Millisecond, 4 * time.Second, 60 * time.Second}[rng.Intn(4)]
	p.nAddr = 1 + rng.Intn(3)
	switch class {
	case "limits":
		p.callers = 1 + rng.Intn(12)
		if rng.Intn(6) == 0 {
			p.callers = 16 + rng.Intn(16)
		}
		p.ops = 4 + rng.Intn(10)
		p.kills = rng.Intn(3) == 0
		p.longCalls = rng.Intn(2) == 0
		p.hook = rng.Intn(2) == 0
		p.closeIdle = rng.Intn(2) == 0
		p.streams = rng.Intn(3) == 0
	case "restart":
		p.callers = 1
		p.ops = 10 + rng.Intn(10)
		p.kills = true
		p.spacing = []time.Duration{10 * time.Millisecond, 700 * time.Millisecond, 1100 * time.Millisecond, 1600 * time.Millisecond, 2200 * time.Millisecond,
			4 * time.Second, 6 * time.Second}[rng.Intn(7)]
	case "busy":
		p.callers = 1 + rng.Intn(6)
		p.ops = 3 + rng.Intn(6)
		p.longCalls = true
		p.hook = rng.Intn(3) != 0
		p.closeIdle = rng.Intn(2) == 0
		p.streams = rng.Intn(2) == 0
	}
	return p
}

type poolCall struct {
	id       string
	addr     int
	form     string
	kind     string // call ping stream
	start    time.Duration
	end      time.Duration
	err      error
	errText  string
	okReply  bool
	delay    time.Duration
	done     int32
	rec      *rig.CallRec
	gen      int // server generation of the address when the call started
	killedIn bool
	marker   []byte // stream: the first message, to find the connection in the taps
}

type poolSrv struct {
	addr  string
	rigs  []*rig.Rig // one per generation
	up    bool
	downs [][2]time.Duration // [kill, restart) intervals; restart = -1 while down
}

type poolRun struct {
	p        poolParams
	t0       time.Time
	net      *memnet.Net
	srvs     []*poolSrv
	tr       *rpc.Transport
	mu       sync.Mutex
	calls    []*poolCall
	rng      *rand.Rand
	findings []scen.Finding
	dialBad  []string
	stats    map[string]int64
	// addresses on which a single connection was reset (calls may fail there)
	resetAddrs map[string]bool
}

func (r *poolRun) now() time.Duration { return time.Since(r.t0) }

func (r *poolRun) bad(prop, fsig, what string) {
	r.mu.Lock()
	if len(r.findings) < 12 {
		r.findings = append(r.findings, scen.Finding{Prop: prop, FSig: fsig, What: what + " [" + r.p.String() + "]"})
	}
	r.mu.Unlock()
}

func (r *poolRun) stat(k string) {
	r.mu.Lock()
	r.stats[k]++
	r.mu.Unlock()
}

func (r *poolRun) rnd(n int) int {
	r.mu.Lock()
	defer r.mu.Unlock()
	return r.rng.Intn(n)
}

func (r *poolRun) startServer(i int) {
	s := r.srvs[i]
	cfg := rig.Config{Network: "mem", Header: wire.Default, Codec: svc.CodecBytes, Pushes: []int{0}}
	g := rig.Start(cfg, r.net, s.addr, r.p.seed+int64(len(s.rigs)))
	s.rigs = append(s.rigs, g)
	s.up = true
}

func (r *poolRun) options() *rpc.Options {
	return &rpc.Options{NewSocket: r.net.NewSocket, NewCodec: svc.NewCodec(svc.CodecBytes)}
}

// doCall performs one operation through the transport and records it.
func (r *poolRun) doCall(addrIdx int, form string, delay time.Duration, counter uint64, caller int) *poolCall {
	s := r.srvs[addrIdx]
	c := &poolCall{addr: addrIdx, form: form, kind: "call", delay: delay}
	spec := svc.Spec{Run: r.p.run, Conn: uint32(addrIdx), Caller: uint32(caller), Counter: counter, DelayUs: uint32(delay / time.Microsecond), ReplyLen: 20, Fill: 30}
	c.id = spec.ID()
	r.mu.Lock()
	c.gen = len(s.rigs) - 1
	r.calls = append(r.calls, c)
	r.mu.Unlock()
	tc := rig.TransportCaller{T: r.tr, Addr: s.addr}
	c.start = r.now()
	switch form {
	case "Ping":
		c.kind = "ping"
		c.err = tc.Ping()
	case "BadStream":
		// a stream the server refuses (unknown method): afterwards the
		// connection is as unused as before
		c.kind = "badstream"
		if st, err := tc.NewStream("Nope.S"); err == nil {
			st.Close()
		}
	case "Stream":
		c.kind = "stream"
		st, err := tc.NewStream("T0.SB")
		c.err = err
		if err == nil {
			// keep the stream open (idle) for the delay, then use it again
			up := svc.StreamMsg(uint64(r.p.run)<<32|counter<<8|uint64(caller), svc.DirUp, 0, svc.KindEcho, 0, 60)
			c.marker = append([]byte(nil), up...)
			var d []byte
			if err = st.WriteMessage(&up); err == nil {
				err = st.ReadMessage(nil, &d)
			}
			if err == nil {
				time.Sleep(delay)
				up2 := svc.StreamMsg(uint64(r.p.run)<<32|counter<<8|uint64(caller), svc.DirUp, 1, svc.KindEcho, 0, 60)
				if err = st.WriteMessage(&up2); err == nil {
					err = st.ReadMessage(nil, &d)
				}
				if err == nil && !svc.ParseStream(d).OK {
					err = fmt.Errorf("corrupt stream answer")
				}
			}
			c.err = err
			st.Close()
		}
	default:
		rec := rig.Do(tc, form, svc.CodecBytes, "S.B0", spec, 256, nil)
		c.rec = rec
		c.err = rec.Err
		if rec.Err == nil {
			c.okReply = bytes.Equal(rec.Reply, svc.Reply(rec.Args))
		}
	}
	c.end = r.now()
	if c.err != nil {
		c.errText = c.err.Error()
	}
	atomic.StoreInt32(&c.done, 1)
	return c
}

func runPool(p poolParams) *scen.Outcome {
	out := &scen.Outcome{Stats: map[string]int64{}}
	r := &poolRun{p: p, t0: time.Now(), rng: rand.New(rand.NewSource(p.seed)), stats: out.Stats, resetAddrs: map[string]bool{}}
	r.net = memnet.New(p.seed)
	r.net.Tap = true
	effMax, effIdle := p.effLimits()
	r.net.OnDial = func(addr string, live int) {
		if live > effMax {
			r.dialBad = append(r.dialBad, fmt.Sprintf("dial to %s at +%v makes %d live connections, limit %d", addr, time.Since(r.t0), live, effMax))
		}
	}
	for i := 0; i < p.nAddr; i++ {
		r.srvs = append(r.srvs, &poolSrv{addr: fmt.Sprintf("p%d-a%d", p.run, i)})
		r.startServer(i)
	}
	for _, s := range r.srvs {
		if err := s.rigs[0].WaitUp(); err != nil {
			out.Inconclusive = "server did not come up"
			return out
		}
	}
	for _, s := range r.srvs { // WaitUp's probe connections are not the transport's
		_ = s
	}
	synctest.Wait()
	base := map[string]int{}
	for _, s := range r.srvs {
		base[s.addr] = r.net.Live(s.addr)
	}
	r.tr = &rpc.Transport{MaxConnsPerHost: p.maxConns, MaxIdleConnsPerHost: p.maxIdle, KeepAlive: p.keepAlive, IdleConnTimeout: p.idleTO, Options: r.options()}
	if p.hook {
		rpc.VerifSetHook(func(point string) {
			if point != "transport.gotConn" {
				return
			}
			var d time.Duration
			switch r.rnd(6) {
			case 0:
				d = time.Duration(r.rnd(900)) * time.Millisecond
			case 1:
				d = p.keepAlive + time.Duration(r.rnd(1200))*time.Millisecond
			case 2:
				d = p.keepAlive + p.idleTO + time.Duration(r.rnd(1500))*time.Millisecond
			}
			if d > 0 {
				time.Sleep(d)
			}
		})
	} else {
		rpc.VerifSetHook(nil)
	}
	defer rpc.VerifSetHook(nil)
	var lastActivity int64 // virtual ns of the end of the last call
	touch := func() {
		n := int64(r.now())
		for {
			o := atomic.LoadInt64(&lastActivity)
			if n <= o || atomic.CompareAndSwapInt64(&lastActivity, o, n) {
				return
			}
		}
	}
	var running int32
	forms := []string{rig.FormCall, rig.FormGo, rig.FormRoundTrip, rig.FormCtx, "Ping"}
	if p.streams {
		forms = append(forms, "Stream", "Stream", "BadStream")
	}
	pooledAtKill := map[int]int{}
	var killTimes []time.Duration
	// H3 snapshots at every virtual tick
	stopSnap := int32(0)
	go func() {
		for atomic.LoadInt32(&stopSnap) == 0 {
			time.Sleep(250 * time.Millisecond)
			for addr, v := range r.tr.VerifPool() {
				r.stat("h3_snapshots")
				if v[1] > effIdle {
					r.bad("C13", "C13/pool/idle-limit", fmt.Sprintf("at +%v the transport holds %d idle connections to %s, limit %d", r.now(), v[1], addr, effIdle))
				}
				if v[0]+v[1] > effMax {
					r.bad("C13", "C13/pool/total-limit", fmt.Sprintf("at +%v the transport holds %d active + %d idle connections to %s, limit %d", r.now(), v[0], v[1], addr, effMax))
				}
			}
		}
	}()
	switch p.class {
	case "restart":
		// one sequential caller; the server of address 0 is killed and restarted at PRNG-chosen calls
		killAt := 2 + r.rnd(p.ops/2)
		downFor := 1 + r.rnd(4)
		// after the restart the round-robin cursor may first create new
		// connections and then visit every dead pooled entry once; 2*max+2
		// further calls are enough for every such failure to have happened
		p.ops = killAt + downFor + 2*effMax + 2 + r.rnd(3)
		atomic.AddInt32(&running, 1)
		go func() {
			defer atomic.AddInt32(&running, -1)
			for i := 0; i < p.ops; i++ {
				if i == killAt {
					pooledAtKill[0] = 0
					for addr, v := range r.tr.VerifPool() {
						if addr == r.srvs[0].addr {
							pooledAtKill[0] = v[0] + v[1]
						}
					}
					killTimes = append(killTimes, r.now())
					r.srvs[0].up = false
					r.srvs[0].downs = append(r.srvs[0].downs, [2]time.Duration{r.now(), -1})
					r.srvs[0].rigs[len(r.srvs[0].rigs)-1].Server.Close()
					r.net.Kill(r.srvs[0].addr)
					synctest.Wait()
				}
				if i == killAt+downFor {
					r.startServer(0)
					r.srvs[0].rigs[len(r.srvs[0].rigs)-1].WaitUp()
					r.srvs[0].downs[len(r.srvs[0].downs)-1][1] = r.now()
				}
				form := forms[r.rnd(5)]
				c := r.doCall(0, form, 0, uint64(i), 0)
				c.killedIn = !r.srvs[0].up
				touch()
				time.Sleep(p.spacing)
			}
		}()
	default:
		for k := 0; k < p.callers; k++ {
			k := k
			atomic.AddInt32(&running, 1)
			go func() {
				defer atomic.AddInt32(&running, -1)
				for i := 0; i < p.ops; i++ {
					time.Sleep(time.Duration(r.rnd(3000)) * time.Millisecond)
					delay := time.Duration(r.rnd(20)) * time.Millisecond
					if p.longCalls && r.rnd(3) == 0 {
						delay = time.Duration(float64(p.keepAlive) * (0.5 + float64(r.rnd(60))/2))
					}
					r.doCall(r.rnd(p.nAddr), forms[r.rnd(len(forms))], delay, uint64(i), k)
					touch()
				}
			}()
		}
		if p.closeIdle {
			atomic.AddInt32(&running, 1)
			go func() {
				defer atomic.AddInt32(&running, -1)
				for i := 0; i < 6+r.rnd(10); i++ {
					time.Sleep(time.Duration(200+r.rnd(2500)) * time.Millisecond)
					r.tr.CloseIdleConnections()
					r.stat("close_idle_calls")
				}
			}()
		}
		if p.run%3 != 0 {
			// single connections are reset under the transport while the server
			// stays up and keeps accepting (a dropped link, not a dead server)
			atomic.AddInt32(&running, 1)
			go func() {
				defer atomic.AddInt32(&running, -1)
				for i := 0; i < 2+r.rnd(6); i++ {
					time.Sleep(time.Duration(100+r.rnd(3000)) * time.Millisecond)
					var live []*memnet.Pair
					for _, pr := range r.net.Pairs() {
						if cc, _ := pr.ClosedBy(); !cc && !pr.Broken() {
							live = append(live, pr)
						}
					}
					if len(live) > 0 {
						pr := live[r.rnd(len(live))]
						pr.Break([]string{memnet.KindReset, memnet.KindEOF}[r.rnd(2)])
						r.mu.Lock()
						r.resetAddrs[pr.Addr] = true
						r.mu.Unlock()
						r.stat("connection_resets")
					}
				}
			}()
		}
		if p.kills {
			atomic.AddInt32(&running, 1)
			go func() {
				defer atomic.AddInt32(&running, -1)
				for i := 0; i < 1+r.rnd(3); i++ {
					time.Sleep(time.Duration(500+r.rnd(6000)) * time.Millisecond)
					a := r.rnd(p.nAddr)
					s := r.srvs[a]
					r.mu.Lock()
					s.up = false
					s.downs = append(s.downs, [2]time.Duration{r.now(), -1})
					r.mu.Unlock()
					killTimes = append(killTimes, r.now())
					s.rigs[len(s.rigs)-1].Server.Close()
					r.net.Kill(s.addr)
					time.Sleep(time.Duration(100+r.rnd(3000)) * time.Millisecond)
					r.mu.Lock()
					r.startServer(a)
					r.mu.Unlock()
					s.rigs[len(s.rigs)-1].WaitUp()
					r.mu.Lock()
					s.downs[len(s.downs)-1][1] = r.now()
					r.mu.Unlock()
				}
			}()
		}
	}
	env := vEnv{}
	fin := env.Settle(func() bool { return atomic.LoadInt32(&running) == 0 }, 2*time.Hour)
	if !fin {
		for _, c := range r.calls {
			if atomic.LoadInt32(&c.done) == 0 {
				r.bad("C15", "C15/pool/call-hang", fmt.Sprintf("%s to address %d started at +%v has not returned after two virtual hours", c.form, c.addr, c.start))
				break
			}
		}
	}
	// reclaim: after everybody has been quiet, connections must go away
	quietAt := time.Duration(atomic.LoadInt64(&lastActivity))
	closeEarly := p.run%2 == 0 && !p.kills
	if fin && closeEarly {
		// Close while connections sit in the idle queue: after KeepAlive + 2
		// ticks they have been retired, and IdleConnTimeout has not expired
		// for the longer settings
		if d := quietAt + p.keepAlive + 2200*time.Millisecond - r.now(); d > 0 {
			time.Sleep(d)
		}
		synctest.Wait()
		for _, v := range r.tr.VerifPool() {
			out.Stats["idle_at_close"] += int64(v[1])
			out.Stats["active_at_close"] += int64(v[0])
		}
	}
	if fin && !closeEarly {
		deadline := quietAt + p.keepAlive + p.idleTO + 2*time.Second + 100*time.Millisecond
		if d := deadline - r.now(); d > 0 {
			time.Sleep(d)
		}
		synctest.Wait()
		for _, s := range r.srvs {
			if extra := r.net.Live(s.addr) - base[s.addr]; extra > 0 {
				prop, fs := "C15", "C15/pool/not-reclaimed"
				what := fmt.Sprintf("%d connections to %s are still open %v after the last use (KeepAlive %v + IdleConnTimeout %v + 2 ticks have passed)", extra, s.addr, r.now()-quietAt, p.keepAlive, p.idleTO)
				if len(s.downs) > 0 {
					fs = "C15/pool/not-reclaimed-after-kill"
					what += "; the server of this address had been killed and restarted during the history"
				}
				r.bad(prop, fs, what)
			}
			out.Stats["max_live_highwater"] = max(out.Stats["max_live_highwater"], int64(r.net.HighWater(s.addr)-base[s.addr]))
		}
	}
	atomic.StoreInt32(&stopSnap, 1)
	// Close must close everything
	r.tr.Close()
	synctest.Wait()
	for _, s := range r.srvs {
		if extra := r.net.Live(s.addr) - base[s.addr]; extra > 0 {
			r.bad("C15", "C15/pool/open-after-close", fmt.Sprintf("%d connections to %s are still open after Transport.Close", extra, s.addr))
		}
	}
	for _, s := range r.srvs {
		for _, g := range s.rigs {
			g.Server.Close()
		}
	}
	env.Settle(func() bool { return true }, time.Second)
	// judge the calls
	for _, m := range r.dialBad {
		r.bad("C13", "C13/pool/dial-over-limit", m)
	}
	wasDown := func(a int, from, to time.Duration) bool {
		for _, d := range r.srvs[a].downs {
			end := d[1]
			if end < 0 {
				end = 1 << 62
			}
			if from <= end && to >= d[0] {
				return true
			}
		}
		return false
	}
	// C04: the transport never retries or duplicates an execution
	execCount := map[string]int{}
	for _, s := range r.srvs {
		for _, g := range s.rigs {
			ex, _, _ := g.Ledger.Snapshot()
			for _, e := range ex {
				if e.Known {
					execCount[e.ID]++
				}
			}
		}
	}
	for _, c := range r.calls {
		if c.kind != "call" || atomic.LoadInt32(&c.done) == 0 {
			continue
		}
		n := execCount[c.id]
		if n > 1 || (c.err == nil && n != 1) {
			r.bad("C04", "C04/pool/exec-count", fmt.Sprintf("call %s through the Transport (err %v) was executed %d times", c.id, c.err, n))
		}
	}
	for _, c := range r.calls {
		if c.rec != nil && atomic.LoadInt32(&c.done) == 1 {
			if extra, changed := c.rec.LateSignals(); extra > 0 || changed {
				r.bad("C02", "C02/pool/late-signal", fmt.Sprintf("%s through the Transport was signalled %d more times after it had completed (Error changed afterwards: %v)", c.form, extra, changed))
			}
		}
	}
	failuresAfterKill := 0
	for _, c := range r.calls {
		if atomic.LoadInt32(&c.done) == 0 {
			continue
		}
		out.Stats["calls"]++
		// address match (C14): the execution must be in a ledger of the requested address only
		if c.kind == "call" {
			for ai, s := range r.srvs {
				for _, g := range s.rigs {
					ex, _, _ := g.Ledger.Snapshot()
					for _, e := range ex {
						if e.ID == c.id && ai != c.addr {
							r.bad("C14", "C14/pool/wrong-address", fmt.Sprintf("call %s for address %d was executed by the server of address %d", c.id, c.addr, ai))
						}
					}
				}
			}
		}
		down := wasDown(c.addr, c.start, c.end)
		afterKill := false
		for _, d := range r.srvs[c.addr].downs {
			if c.start >= d[0] {
				afterKill = true
			}
		}
		switch {
		case c.err == nil:
			if c.kind == "call" && !c.okReply {
				r.bad("C01", "C01/pool/wrong-reply", fmt.Sprintf("call %s returned a reply that is not f(args)", c.id))
			}
		case !down && !afterKill && r.resetAddrs[r.srvs[c.addr].addr]:
			out.Stats["failed_on_address_with_reset_connection"]++
		case !down && !afterKill:
			// The server was healthy for the whole call and had never been
			// killed. C15 is violated iff the request (or, for a stream, its
			// open request) had been written to a connection which the client
			// side then closed while it was unanswered. A connection closed by
			// housekeeping before the request was written (possible only in
			// the H1 window) is not covered by the statement: counted only.
			sentOn := r.findRequest(c)
			if sentOn == nil {
				out.Stats["failed_before_request_was_written"]++
				break
			}
			cc, sc := sentOn.ClosedBy()
			if cc {
				what := fmt.Sprintf("%s (%s, handler delay %v) to a healthy server failed with %q at +%v (started +%v): its request had been written to connection #%d, which the client side closed while the call was unanswered (events %v)",
					c.form, c.kind, c.delay, c.errText, c.end, c.start, sentOn.ID, eventNames(sentOn))
				r.bad("C15", "C15/pool/busy-connection-closed/"+c.kind, what)
			} else {
				r.bad("C15", "C15/pool/healthy-call-failed", fmt.Sprintf("%s (%s) to a healthy server failed with %q although nobody closed its connection (server closed=%v)", c.form, c.kind, c.errText, sc))
			}
		case down && c.start >= 0 && p.class == "restart":
			// started while the server was down: must fail at once with ErrDial (or ErrShutdown from a pooled connection)
			if c.killedIn {
				if c.err != rpc.ErrDial && c.err != rpc.ErrShutdown {
					r.bad("C14", "C14/pool/down-error", fmt.Sprintf("%s while the server was down returned %q, expected ErrDial", c.form, c.errText))
				}
				if c.end != c.start && !p.hook {
					r.bad("C14", "C14/pool/down-slow", fmt.Sprintf("%s while the server was down took %v of virtual time", c.form, c.end-c.start))
				}
			}
			if c.err == rpc.ErrShutdown {
				failuresAfterKill++
			}
		default:
			if c.err == rpc.ErrShutdown {
				failuresAfterKill++
			} else if p.class == "restart" && !c.killedIn {
				r.bad("C14", "C14/pool/recovery-error", fmt.Sprintf("%s after the server had been restarted returned %q at +%v", c.form, c.errText, c.end))
			}
		}
	}
	if p.class == "restart" {
		out.Stats["restart_failures_seen"] += int64(failuresAfterKill)
		if failuresAfterKill > pooledAtKill[0] {
			r.bad("C14", "C14/pool/too-many-failures", fmt.Sprintf("a sequential caller saw %d ErrShutdown failures after the kill although only %d connections were pooled at that moment (call spacing %v)", failuresAfterKill, pooledAtKill[0], p.spacing))
		}
		// the caller must succeed again once the server is back
		var lastUp *poolCall
		for _, c := range r.calls {
			if atomic.LoadInt32(&c.done) == 1 && !c.killedIn {
				lastUp = c
			}
		}
		if lastUp != nil && lastUp.err != nil && len(r.srvs[0].downs) > 0 && r.srvs[0].downs[0][1] >= 0 && lastUp.start > r.srvs[0].downs[0][1] {
			nAfter := 0
			for _, c := range r.calls {
				if c.start > r.srvs[0].downs[0][1] {
					nAfter++
				}
			}
			if nAfter > 2*effMax+1 {
				r.bad("C14", "C14/pool/never-recovers", fmt.Sprintf("the last of %d calls issued after the restart still failed with %q", nAfter, lastUp.errText))
			}
		}
	}
	out.Findings = r.findings
	out.Sig = p.String()
	out.Nontrivial = len(r.calls) > 1
	out.Stats["kills"] += int64(len(killTimes))
	return out
}

// findRequest returns the connection on which the request of c was written.
func (r *poolRun) findRequest(c *poolCall) *memnet.Pair {
	for _, p := range r.net.Pairs() {
		if p.Addr != r.srvs[c.addr].addr {
			continue
		}
		v := scen.View(p, wire.Default, svc.CodecBytes)
		for _, q := range v.Reqs {
			switch c.kind {
			case "call":
				if q.ID == c.id {
					return p
				}
			case "stream":
				if q.HasUp && q.Flags.Stream == 2 && q.ArgsLen > 0 {
					// the first message of the stream carries the stream id
				}
			}
		}
		if c.kind == "stream" {
			if b := p.TapCopy(memnet.C2S); bytes.Contains(b, c.marker) && len(c.marker) > 0 {
				return p
			}
		}
	}
	return nil
}

func eventNames(p *memnet.Pair) []string {
	var out []string
	for _, e := range p.EventLog() {
		out = append(out, e.What)
	}
	return out
}

func poolEngine(a Args) {
	var x poolExtra
	json.Unmarshal(a.Extra, &x)
	if x.Class == "" {
		x.Class = "limits"
	}
	for idx := a.From; idx < a.To; idx += a.Stride {
		cs := fmt.Sprintf("pool/%s/%d", x.Class, idx)
		if !wantCase(a, cs) {
			continue
		}
		mon.Progress("pool", cs)
		p := genPool(a.Seed, idx, x.Class)
		o := runPool(p)
		if idx%40 == 0 {
			o.Sample = map[string]interface{}{"history": p.String()}
		}
		emit("pool", cs, a, o)
	}
}

var _ = context.Background
