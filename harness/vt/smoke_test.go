//go:build go1.25

package vt

import (
	"fmt"
	"testing/synctest"
	"time"

	"verif/harness/mon"
	"verif/harness/rig"
	"verif/harness/svc"
)

func init() { engines["smoke"] = smoke }

func smoke(a Args) {
	for _, hdr := range []string{"default", "pb", "code", "json"} {
		for _, codec := range svc.Codecs {
			cfg := rig.Config{Network: "mem", Header: hdr, Codec: codec, Frag: 7}
			r := rig.Start(cfg, nil, "srv", a.Seed)
			conn, err := r.Dial()
			if err != nil {
				mon.Note("smoke", "dial: "+err.Error())
				continue
			}
			bad := 0
			t0 := time.Now()
			for i := 0; i < 20; i++ {
				rec := rig.Do(conn, rig.Forms[i%len(rig.Forms)], codec, rig.Method(codec, i%4),
					svc.Spec{Run: 1, Conn: 1, Caller: 1, Counter: uint64(i), DelayUs: 1000, ReplyLen: uint32(i * 1000), Fill: i * 3000}, 100000, nil)
				if rec.Err != nil || rig.CheckReply(rec) != "" {
					bad++
					mon.Note("smoke", fmt.Sprintf("%s %s: err=%v %s", cfg, rec.ID, rec.Err, rig.CheckReply(rec)))
				}
			}
			conn.Close()
			r.Server.Close()
			synctest.Wait()
			ret, _ := r.ListenReturned()
			mon.Emit(mon.Result{T: "case", Engine: "smoke", Case: cfg.String(), Verdict: mon.Held,
				Stats: map[string]int64{"bad": int64(bad), "virt_ms": int64(time.Since(t0) / time.Millisecond), "listen_returned": b2i(ret), "live": int64(r.Net.LiveTotal())}})
		}
	}
}

func b2i(b bool) int64 {
	if b {
		return 1
	}
	return 0
}
