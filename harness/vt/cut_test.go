//go:build go1.25

package vt

import (
	"bytes"
	"encoding/json"
	"fmt"
	"strings"
	"sync/atomic"
	"testing/synctest"
	"time"

	"github.com/hslam/rpc"
	"verif/harness/memnet"
	"verif/harness/mon"
	"verif/harness/rig"
	"verif/harness/scen"
	"verif/harness/svc"
	"verif/harness/wire"
)

// Engine "cut": a fixed conversation (bursts of asynchronous calls, a ping, a
// stream exchange, a failing call) is run against the real server over memnet,
// first uncut to learn its byte length per direction, then once per
// (direction, byte offset, kind of cut) — the whole enumeration — and once per
// (step, local Close | Server.Close). Decides C03; its stream observations are
// also judged for C10.

func init() { engines["cut"] = cutEngine }

type cutExtra struct {
	Modes  []int `json:"modes"`  // indices into cutModes
	Every  int   `json:"every"`  // enumerate every Every-th offset (1 = all)
	Header int   `json:"header"` // index into wire.Formats, -1 = rotate
}

type cutMode struct {
	sp, sd, cp, cd bool
}

var cutModes = []cutMode{
	{false, false, false, false},
	{true, false, false, false},
	{false, true, false, false},
	{false, false, true, false},
	{false, false, false, true},
	{true, false, true, false},
	{true, true, false, true},
	{false, true, true, false},
	{true, false, false, true},
}

type cutOp struct {
	name     string
	kind     string // go, ping, call, open, sread, swrite, sclose
	spec     svc.Spec
	args     []byte
	reply    []byte
	call     *rpc.Call
	started  bool
	startT   time.Duration
	startW   int64 // c2s bytes written when started
	afterEnd bool  // started after the end of the connection had been observed
	done     int32
	doneT    time.Duration
	doneW    int64
	err      error
	errText  string
	okReply  bool
}

type cutRun struct {
	t0          time.Time
	r           *rig.Rig
	conn        *rpc.Conn
	pair        *memnet.Pair
	ops         []*cutOp
	endObserved bool
	finished    int32
	step        int32
	hook        func(step int)
}

func terminalErr(err error) bool {
	if err == nil {
		return false
	}
	if err == rpc.ErrShutdown || err == rpc.ErrStreamShutdown || err == memnet.ErrCustom {
		return true
	}
	s := err.Error()
	return strings.Contains(s, "broken pipe") || strings.Contains(s, "EOF") || strings.Contains(s, "reset") || strings.Contains(s, "closed")
}

func (c *cutRun) begin(name, kind string) *cutOp {
	o := &cutOp{name: name, kind: kind}
	o.started = true
	o.startT = time.Since(c.t0)
	o.startW, _ = c.pair.Counts(memnet.C2S)
	o.afterEnd = c.endObserved
	c.ops = append(c.ops, o)
	return o
}

func (c *cutRun) end(o *cutOp, err error) {
	o.err = err
	if err != nil {
		o.errText = err.Error()
	}
	o.doneT = time.Since(c.t0)
	o.doneW, _ = c.pair.Counts(memnet.C2S)
	atomic.StoreInt32(&o.done, 1)
	if terminalErr(err) {
		c.endObserved = true
	}
}

func (c *cutRun) at(step int) {
	atomic.StoreInt32(&c.step, int32(step))
	if c.hook != nil {
		c.hook(step)
	}
}

const cutSteps = 9

// conversation is the fixed client script. It tolerates every error and keeps
// going, so that operations started after the end of the connection are
// exercised as well.
func (c *cutRun) conversation() {
	defer atomic.StoreInt32(&c.finished, 1)
	conn := c.conn
	done := make(chan *rpc.Call, 32)
	var async []*cutOp
	goCall := func(i int, fill, rlen int, delayUs, fail uint32) {
		o := c.begin(fmt.Sprintf("go%d", i), "go")
		o.spec = svc.Spec{Run: 9, Conn: 1, Caller: 1, Counter: uint64(i), Fill: fill, ReplyLen: uint32(rlen), DelayUs: delayUs, FailLen: fail}
		o.args = svc.Build(o.spec)
		o.reply = append([]byte(nil), rig.Sentinel...)
		o.call = conn.Go("S.B"+fmt.Sprint(i%4), &o.args, &o.reply, done)
		async = append(async, o)
	}
	collect := func() {
		// every asynchronous call issued so far must arrive
		pending := 0
		for _, o := range async {
			if atomic.LoadInt32(&o.done) == 0 {
				pending++
			}
		}
		for pending > 0 {
			call := <-done
			for _, o := range async {
				if o.call == call && atomic.LoadInt32(&o.done) == 0 {
					if call.Error == nil {
						o.okReply = bytes.Equal(o.reply, svc.Reply(o.args))
					}
					c.end(o, call.Error)
					pending--
					break
				}
			}
		}
	}
	c.at(0)
	goCall(0, 10, 30, 0, 0)
	goCall(1, 300, 700, 2000, 0)
	goCall(2, 0, 0, 500, 0)
	c.at(1)
	goCall(3, 1500, 100, 0, 0)
	goCall(4, 40, 2500, 3000, 0)
	goCall(5, 90, 90, 100, 60)
	c.at(2)
	o := c.begin("ping", "ping")
	c.end(o, conn.Ping())
	c.at(3)
	o = c.begin("open", "open")
	st, err := conn.NewStream("T1.SB")
	c.end(o, err)
	if err == nil {
		o = c.begin("sread-push", "sread")
		var m []byte
		err = st.ReadMessage(nil, &m)
		if err == nil && !svc.ParseStream(m).OK {
			err = fmt.Errorf("corrupt push message: %d bytes %x", len(m), m[:min(len(m), 40)])
		}
		c.end(o, err)
		c.at(4)
		o = c.begin("swrite", "swrite")
		up := svc.StreamMsg(77, svc.DirUp, 0, svc.KindEcho, 0, 200)
		c.end(o, st.WriteMessage(&up))
		o = c.begin("sread-answer", "sread")
		var d []byte
		err = st.ReadMessage(nil, &d)
		if err == nil && (!svc.ParseStream(d).OK || svc.ParseStream(d).Stream != 77) {
			err = fmt.Errorf("corrupt answer message")
		}
		c.end(o, err)
	}
	c.at(5)
	goCall(6, 600, 10, 1000, 0)
	goCall(7, 5, 5, 0, 0)
	goCall(8, 0, 1200, 200, 0)
	goCall(9, 128, 128, 0, 0)
	c.at(6)
	collect()
	c.at(7)
	if st != nil {
		o = c.begin("sclose", "sclose")
		c.end(o, st.Close())
	}
	o = c.begin("call-last", "call")
	o.spec = svc.Spec{Run: 9, Conn: 1, Caller: 2, Counter: 100, Fill: 20, ReplyLen: 20}
	o.args = svc.Build(o.spec)
	o.reply = append([]byte(nil), rig.Sentinel...)
	err = conn.Call("S.B0", &o.args, &o.reply)
	if err == nil {
		o.okReply = bytes.Equal(o.reply, svc.Reply(o.args))
	}
	c.end(o, err)
	c.at(8)
}

type cutCase struct {
	mode   int
	hdr    string
	dir    int    // 0 c2s, 1 s2c, -1 none
	off    int64  // byte offset
	kind   string // reset eof custom | localclose serverclose (off = step)
	noWait bool
}

func (cc cutCase) String() string {
	m := cutModes[cc.mode]
	ms := fmt.Sprintf("sp=%v,sd=%v,cp=%v,cd=%v", m.sp, m.sd, m.cp, m.cd)
	if cc.dir < 0 && cc.kind == "" {
		return fmt.Sprintf("cut/%s/%s/uncut", cc.hdr, ms)
	}
	if cc.kind == "localclose" || cc.kind == "serverclose" {
		return fmt.Sprintf("cut/%s/%s/%s@step%d", cc.hdr, ms, cc.kind, cc.off)
	}
	return fmt.Sprintf("cut/%s/%s/%s/%s@%d", cc.hdr, ms, memnet.Dir(cc.dir), cc.kind, cc.off)
}

type cutOutcome struct {
	c2s, s2c int64
	findings []scen.Finding
	hang     bool
	tripped  bool
}

func runCut(cc cutCase, seed int64) cutOutcome {
	var out cutOutcome
	bad := func(prop, fsig, what string) {
		if len(out.findings) < 8 {
			out.findings = append(out.findings, scen.Finding{Prop: prop, FSig: fsig, What: what + " [" + cc.String() + "]"})
		}
	}
	m := cutModes[cc.mode]
	cfg := rig.Config{Network: "mem", Header: cc.hdr, Codec: svc.CodecBytes, SrvPipelining: m.sp, SrvDirect: m.sd, CliPipelining: m.cp, CliDirect: m.cd,
		Tap: true, Pushes: []int{0, 1}}
	r := rig.Start(cfg, nil, "cut", seed)
	if err := r.WaitUp(); err != nil {
		return out
	}
	npairs := len(r.Net.Pairs())
	if cc.dir >= 0 {
		r.Net.OnPair = func(p *memnet.Pair) {
			if p.ID == npairs {
				p.CutAt(memnet.Dir(cc.dir), cc.off, cc.kind)
			}
		}
	}
	conn, err := r.Dial()
	if err != nil {
		return out
	}
	synctest.Wait() // the server has registered the connection
	pairs := r.Net.Pairs()
	c := &cutRun{t0: time.Now(), r: r, conn: conn, pair: pairs[len(pairs)-1]}
	if cc.kind == "localclose" || cc.kind == "serverclose" {
		c.hook = func(step int) {
			if int64(step) != cc.off {
				return
			}
			f := func() {
				if cc.kind == "localclose" {
					conn.Close()
				} else {
					r.Server.Close()
				}
			}
			if cc.noWait {
				go f()
			} else {
				f()
			}
		}
	}
	go c.conversation()
	env := vEnv{}
	fin := env.Settle(func() bool { return atomic.LoadInt32(&c.finished) == 1 }, 10*time.Minute)
	out.c2s, _ = c.pair.Counts(memnet.C2S)
	out.s2c, _ = c.pair.Counts(memnet.S2C)
	out.tripped = c.pair.Broken()
	if !fin {
		out.hang = true
		for _, o := range c.ops {
			if atomic.LoadInt32(&o.done) == 0 {
				prop, fs := "C03", "C03/cut/hang/"+o.kind
				if o.kind == "sread" || o.kind == "swrite" || o.kind == "sclose" {
					prop, fs = "C10", "C10/cut/stream-op-hang/"+o.kind
				}
				bad(prop, fs, fmt.Sprintf("%s (%s) is still blocked although the connection has ended and the system is quiescent (virtual %v later)", o.name, o.kind, time.Since(c.t0)))
			}
		}
	}
	// judge
	_, srvClosed := c.pair.ClosedBy()
	cutHappened := cc.dir >= 0 && out.tripped || cc.kind == "localclose" || cc.kind == "serverclose" && srvClosed
	view := scen.View(c.pair, cc.hdr, svc.CodecBytes)
	_, delivered := c.pair.Counts(memnet.S2C)
	seqByID := map[string]uint64{}
	reqEnd := map[string]int{}
	for _, q := range view.Reqs {
		if q.ID != "" && !q.HasUp {
			seqByID[q.ID] = q.Seq
			reqEnd[q.ID] = q.End
		}
	}
	for _, o := range c.ops {
		if atomic.LoadInt32(&o.done) == 0 {
			continue
		}
		unary := o.kind == "go" || o.kind == "call"
		if o.afterEnd {
			// started after the end of the connection was observable
			switch {
			case unary || o.kind == "ping" || o.kind == "open":
				if o.err != rpc.ErrShutdown {
					bad("C03", "C03/cut/after-end-error/"+o.kind, fmt.Sprintf("%s started after the connection had ended returned %q instead of ErrShutdown", o.name, o.errText))
				}
			case o.kind == "sread" || o.kind == "swrite":
				if o.err != rpc.ErrStreamShutdown {
					bad("C10", "C10/cut/after-end-error/"+o.kind, fmt.Sprintf("%s on a stream whose connection had ended returned %q instead of ErrStreamShutdown", o.name, o.errText))
				}
			}
			if o.doneT != o.startT {
				bad("C03", "C03/cut/after-end-slow/"+o.kind, fmt.Sprintf("%s started after the connection had ended took %v of virtual time", o.name, o.doneT-o.startT))
			}
			continue
		}
		if !unary {
			if !cutHappened && o.err != nil {
				bad("C12", "C12/cut/uncut-error", fmt.Sprintf("%s failed with %q in an undisturbed conversation", o.name, o.errText))
			}
			if o.kind == "sread" && o.err != nil && strings.HasPrefix(o.errText, "corrupt") {
				bad("C09", "C09/cut/corrupt-message", fmt.Sprintf("%s returned nil with a message that is not what the server wrote: %s", o.name, o.errText))
			} else if cutHappened && (o.kind == "sread") && o.err != nil && o.err != rpc.ErrStreamShutdown {
				bad("C10", "C10/cut/stream-read-error", fmt.Sprintf("%s, blocked when the connection ended, returned %q instead of ErrStreamShutdown", o.name, o.errText))
			}
			continue
		}
		id := o.spec.ID()
		seq, sent := seqByID[id]
		received := false
		var wres scen.WireRes
		if sent {
			for _, x := range view.Ress {
				if x.Seq == seq && int64(x.End) <= delivered {
					received = true
					wres = x
				}
			}
		}
		wantFail := o.spec.FailLen > 0
		if cc.kind == "localclose" && received && o.err == rpc.ErrShutdown {
			// the user closed the connection while the response was being
			// processed: "received before the cut" is not defined for this race
			continue
		}
		switch {
		case received && !wantFail:
			if o.err != nil {
				bad("C03", "C03/cut/received-response-lost", fmt.Sprintf("%s: its response frame (ending at byte %d) had been completely delivered to the client (%d bytes delivered before the end) but the call failed with %q", o.name, wres.End, delivered, o.errText))
			} else if !o.okReply {
				bad("C01", "C01/cut/wrong-reply", fmt.Sprintf("%s completed without error with a reply that is not f(args)", o.name))
			}
		case received && wantFail:
			if o.err == nil || o.errText != svc.ErrText(o.args) {
				bad("C03", "C03/cut/received-error-response-lost", fmt.Sprintf("%s: its error response had been completely delivered but the call returned %q", o.name, o.errText))
			}
		default:
			if !cutHappened {
				bad("C12", "C12/cut/uncut-no-response", fmt.Sprintf("%s got no response in an undisturbed conversation (err %q)", o.name, o.errText))
				break
			}
			if o.err == nil {
				bad("C03", "C03/cut/success-without-response", fmt.Sprintf("%s completed without error although no complete response for it was delivered", o.name))
				break
			}
			okErr := o.err == rpc.ErrShutdown || terminalErr(o.err)
			if cc.kind == "custom" && o.err == memnet.ErrCustom {
				okErr = true
			}
			if !okErr {
				bad("C03", "C03/cut/wrong-error", fmt.Sprintf("%s, outstanding when the connection ended (%s), completed with %q", o.name, cc.kind, o.errText))
			}
			// orderly end and request fully written => ErrShutdown
			orderly := cc.kind == "eof" || cc.kind == "reset" || cc.kind == "localclose" || cc.kind == "serverclose"
			if orderly && sent && o.err != rpc.ErrShutdown && !strings.Contains(o.errText, "broken pipe") && !strings.Contains(o.errText, "EOF") {
				bad("C03", "C03/cut/not-errshutdown", fmt.Sprintf("%s had been sent and the connection ended in an orderly way (%s) but the call completed with %q", o.name, cc.kind, o.errText))
			}
		}
	}
	// C04 on a dropped connection: nothing is executed or answered twice, and
	// nothing is executed that was not delivered
	{
		_, cdel := c.pair.Counts(memnet.C2S)
		delivered := map[string]bool{}
		for _, q := range view.Reqs {
			if q.ID != "" && int64(q.End) <= cdel {
				delivered[q.ID] = true
			}
		}
		ex, _, overlaps := r.Ledger.Snapshot()
		if m.sp {
			// C05 while a connection goes down: the requests already received
			// are still executed one at a time and in the order sent
			if len(overlaps) > 0 {
				bad("C05", "C05/cut/overlap", fmt.Sprintf("pipelining server ran two handlers of one connection at the same time while the connection ended (%d overlaps, first at request %s)", len(overlaps), overlaps[0]))
			}
			last := int64(-1)
			for _, e := range ex {
				if !e.Known || e.Spec.Caller != 1 {
					continue
				}
				if int64(e.Spec.Counter) < last {
					bad("C05", "C05/cut/exec-order", fmt.Sprintf("pipelining server executed request %d after request %d while the connection ended", e.Spec.Counter, last))
					break
				}
				last = int64(e.Spec.Counter)
			}
		}
		cnt := map[string]int{}
		for _, e := range ex {
			if !e.Known {
				continue
			}
			cnt[e.ID]++
			if cnt[e.ID] == 2 {
				bad("C04", "C04/cut/executed-twice", fmt.Sprintf("request %s was executed twice", e.ID))
			}
			if !delivered[e.ID] {
				bad("C04", "C04/cut/executed-undelivered", fmt.Sprintf("request %s was executed although its frame was not completely delivered to the server (%d bytes delivered)", e.ID, cdel))
			}
		}
		rc := map[uint64]int{}
		ss := view.StreamSeqs()
		for _, x := range view.Ress {
			if ss[x.Seq] {
				continue
			}
			rc[x.Seq]++
			if rc[x.Seq] == 2 {
				bad("C04", "C04/cut/answered-twice", fmt.Sprintf("two responses with sequence number %d were written", x.Seq))
			}
		}
	}
	// a call issued now must fail at once
	if cutHappened && fin {
		synctest.Wait()
		w0, _ := c.pair.Counts(memnet.C2S)
		t1 := time.Now()
		var rep []byte
		a := svc.Build(svc.Spec{Run: 9, Conn: 1, Caller: 3, Counter: 1})
		res := make(chan error, 1)
		go func() { res <- conn.Call("S.B0", &a, &rep) }()
		synctest.Wait()
		select {
		case err := <-res:
			w1, _ := c.pair.Counts(memnet.C2S)
			if err != rpc.ErrShutdown || time.Since(t1) != 0 || w1 != w0 {
				bad("C03", "C03/cut/later-call", fmt.Sprintf("a Call issued after the connection had ended returned %v after %v, writing %d bytes; expected ErrShutdown at once", err, time.Since(t1), w1-w0))
			}
		default:
			bad("C03", "C03/cut/later-call-hangs", "a Call issued after the connection had ended blocks")
		}
	}
	conn.Close()
	r.Server.Close()
	env.Settle(func() bool { ret, _ := r.ListenReturned(); u, s := r.Ledger.Running(); return ret && u == 0 && s == 0 }, 10*time.Second)
	if cutHappened {
		if u, s := r.Ledger.Running(); s > 0 || u > 0 {
			bad("C10", "C10/cut/handler-still-running", fmt.Sprintf("%d stream handlers and %d unary handlers have not returned after the connection ended and everything was closed", s, u))
		}
	}
	return out
}

func cutEngine(a Args) {
	var x cutExtra
	x.Header = -1
	json.Unmarshal(a.Extra, &x)
	if x.Every < 1 {
		x.Every = 1
	}
	if len(x.Modes) == 0 {
		x.Modes = []int{0}
	}
	for _, mi := range x.Modes {
		hdr := wire.Formats[(mi+int(a.Seed))%4]
		if x.Header >= 0 {
			hdr = wire.Formats[x.Header%4]
		}
		base := cutCase{mode: mi, hdr: hdr, dir: -1}
		mon.Progress("cut", base.String())
		u := runCut(base, a.Seed)
		ran, nontriv := 0, 0
		var sigs []string
		emitF := func(cs string, fs []scen.Finding) {
			for _, f := range fs {
				if a.Prop != "" && f.Prop != a.Prop {
					continue
				}
				mon.Emit(mon.Result{T: "case", Engine: "cut", Case: cs, Verdict: mon.Violated, Prop: f.Prop, What: f.What, FSig: f.FSig, N: 0})
			}
		}
		if a.From == 0 {
			emitF(base.String(), u.findings)
			ran++
		}
		if u.hang || u.c2s == 0 || u.s2c == 0 {
			mon.Emit(mon.Result{T: "case", Engine: "cut", Case: base.String(), Verdict: mon.Inconclusive, What: fmt.Sprintf("uncut conversation did not complete (hang=%v c2s=%d s2c=%d)", u.hang, u.c2s, u.s2c)})
			continue
		}
		// all cases of this mode, in a fixed order
		var cases []cutCase
		for dir, total := range []int64{u.c2s, u.s2c} {
			for off := int64(0); off <= total; off += int64(x.Every) {
				for _, k := range []string{memnet.KindReset, memnet.KindEOF, memnet.KindCustom} {
					cases = append(cases, cutCase{mode: mi, hdr: hdr, dir: dir, off: off, kind: k})
				}
			}
		}
		for step := 0; step < cutSteps; step++ {
			for _, k := range []string{"localclose", "serverclose"} {
				cases = append(cases, cutCase{mode: mi, hdr: hdr, dir: -1, off: int64(step), kind: k})
				cases = append(cases, cutCase{mode: mi, hdr: hdr, dir: -1, off: int64(step), kind: k, noWait: true})
			}
		}
		for i := a.From; i < len(cases); i += a.Stride {
			cc := cases[i]
			cs := cc.String()
			if !wantCase(a, cs) {
				continue
			}
			if ran%100 == 0 {
				mon.Progress("cut", cs)
			}
			mon.Beat()
			o := runCut(cc, a.Seed)
			ran++
			if o.tripped || cc.dir < 0 {
				nontriv++
				sigs = append(sigs, cs)
			}
			emitF(cs, o.findings)
		}
		mon.Emit(mon.Result{T: "case", Engine: "cut", Case: base.String() + "/summary", Verdict: mon.Held, N: ran, Sigs: sigs,
			Stats: map[string]int64{"cut_points_run": int64(ran), "cuts_that_tripped": int64(nontriv), "max_conversation_c2s_bytes": u.c2s, "max_conversation_s2c_bytes": u.s2c,
				"max_cases_in_mode": int64(len(cases))},
			Sample: map[string]interface{}{"mode": base.String(), "c2s_bytes": u.c2s, "s2c_bytes": u.s2c, "offset_stride": x.Every, "kinds": "reset,eof,custom + localclose/serverclose at 9 steps"}})
	}
}
