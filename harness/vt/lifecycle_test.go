//go:build go1.25

package vt

import (
	"context"
	"encoding/json"
	"fmt"
	"math/rand"
	"regexp"
	"runtime"
	"strings"
	"sync/atomic"
	"testing/synctest"
	"time"

	"github.com/hslam/rpc"
	"verif/harness/memnet"
	"verif/harness/mon"
	"verif/harness/rig"
	"verif/harness/scen"
	"verif/harness/svc"
	"verif/harness/wire"
)

// Engine "lifecycle" decides C20: usage histories before Close x orders of
// closing the participants; at quiescence afterwards no goroutine with library
// frames may be left, no in-memory connection may be open, and the Close
// calls must have returned what the property says.

func init() { engines["lifecycle"] = lifecycleEngine }

const gateDelayUs = 99_000_000 // a handler with this delay blocks on the scenario's gate

var goroutineHdr = regexp.MustCompile(`(?m)^goroutine (\d+) \[([^\]]*)\]:$`)

// libGoroutines returns id -> stack of goroutines whose stack has library frames.
func libGoroutines() map[string]string {
	buf := make([]byte, 1<<20)
	for {
		n := runtime.Stack(buf, true)
		if n < len(buf) {
			buf = buf[:n]
			break
		}
		buf = make([]byte, 2*len(buf))
	}
	out := map[string]string{}
	for _, g := range strings.Split(string(buf), "\n\n") {
		m := goroutineHdr.FindStringSubmatch(g)
		if m == nil {
			continue
		}
		if strings.Contains(g, "github.com/hslam/rpc.") || strings.Contains(g, "github.com/hslam/scheduler") ||
			strings.Contains(g, "github.com/hslam/writer") || strings.Contains(g, "github.com/hslam/socket") {
			out[m[1]] = g
		}
	}
	return out
}

func innermostLib(stack string) string {
	for _, l := range strings.Split(stack, "\n") {
		if strings.HasPrefix(l, "github.com/hslam/") {
			if i := strings.LastIndex(l, "("); i > 0 {
				return l[:i]
			}
			return l
		}
	}
	return "?"
}

type lifeParams struct {
	idx      int
	seed     int64
	modes    int // cut mode index (server/client I/O modes)
	inflight bool
	streams  bool
	transp   bool
	client   bool
	waiters  bool
	deadPeer bool
	abandon  bool
	order    []string // closing order of: conns, transport, client, server
}

func (p lifeParams) String() string {
	return fmt.Sprintf("modes=%d inflight=%v streams=%v transport=%v client=%v waiters=%v deadpeer=%v abandoned=%v order=%v", p.modes, p.inflight, p.streams, p.transp, p.client, p.waiters, p.deadPeer, p.abandon, p.order)
}

func genLife(seed int64, idx int) lifeParams {
	rng := rand.New(rand.NewSource(seed*5501 + int64(idx)*13))
	p := lifeParams{idx: idx, seed: rng.Int63(), modes: rng.Intn(len(cutModes))}
	p.inflight = rng.Intn(2) == 0
	p.streams = rng.Intn(2) == 0
	p.transp = rng.Intn(2) == 0
	p.client = rng.Intn(2) == 0
	p.waiters = p.client && rng.Intn(2) == 0
	p.deadPeer = rng.Intn(4) == 0
	p.abandon = rng.Intn(3) == 0
	p.order = []string{"conns", "transport", "client", "server"}
	rng.Shuffle(len(p.order), func(i, j int) { p.order[i], p.order[j] = p.order[j], p.order[i] })
	return p
}

func runLife(p lifeParams) *scen.Outcome {
	out := &scen.Outcome{Stats: map[string]int64{}}
	bad := func(fsig, what string) {
		if len(out.Findings) < 8 {
			out.Findings = append(out.Findings, scen.Finding{Prop: "C20", FSig: fsig, What: what + " [" + p.String() + "]"})
		}
	}
	synctest.Wait()
	baseline := libGoroutines()
	m := cutModes[p.modes]
	cfg := rig.Config{Network: "mem", Header: wire.Formats[p.idx%4], Codec: svc.CodecBytes, SrvPipelining: m.sp, SrvDirect: m.sd, CliPipelining: m.cp, CliDirect: m.cd, Pushes: []int{0, 1}}
	addr := fmt.Sprintf("life-%d", p.idx)
	r := rig.Start(cfg, nil, addr, p.seed)
	gate := make(chan struct{})
	r.Ledger.Sleep = func(d time.Duration) {
		if d == gateDelayUs*time.Microsecond {
			<-gate
			return
		}
		time.Sleep(d)
	}
	if err := r.WaitUp(); err != nil {
		out.Inconclusive = "server did not come up"
		return out
	}
	var pendingOps int32
	spawn := func(f func()) {
		atomic.AddInt32(&pendingOps, 1)
		go func() { defer atomic.AddInt32(&pendingOps, -1); f() }()
	}
	// direct connections
	var conns []*rpc.Conn
	for i := 0; i < 2; i++ {
		c, err := r.Dial()
		if err != nil {
			out.Inconclusive = "dial failed"
			return out
		}
		conns = append(conns, c)
	}
	call := func(c rig.Caller, counter uint64, delayUs uint32, form string) {
		rig.Do(c, form, svc.CodecBytes, "S.B0", svc.Spec{Run: uint32(p.idx), Conn: 1, Caller: 1, Counter: counter, DelayUs: delayUs, ReplyLen: 10}, 64, nil)
	}
	call(conns[0], 1, 0, rig.FormCall)
	if p.idx%3 != 0 {
		// requests the server refuses (unknown method, undecodable arguments)
		// are part of a connection's life too
		rig.Do(conns[0], rig.FormCall, svc.CodecBytes, "S.Nope", svc.Spec{Run: uint32(p.idx), Conn: 1, Caller: 3, Counter: 1, ReplyLen: 10}, 64, nil)
		rig.Do(conns[1], rig.FormGo, svc.CodecBytes, "Nope.Nope", svc.Spec{Run: uint32(p.idx), Conn: 1, Caller: 3, Counter: 2, ReplyLen: 10}, 64, nil)
		if st, err := conns[1].NewStream("Nope.S"); err == nil {
			st.Close()
		}
	}
	if p.inflight {
		spawn(func() { call(conns[0], 2, gateDelayUs, rig.FormCall) })
		spawn(func() { call(conns[1], 3, gateDelayUs, rig.FormGo) })
	}
	if p.abandon {
		ctx, cancel := context.WithTimeout(context.Background(), 5*time.Millisecond)
		spawn(func() {
			rig.Do(conns[1], rig.FormCtx, svc.CodecBytes, "S.B0", svc.Spec{Run: uint32(p.idx), Conn: 1, Caller: 2, Counter: 4, DelayUs: gateDelayUs}, 0, &rig.DoOpt{Ctx: ctx})
			cancel()
		})
	}
	if p.streams {
		for _, c := range conns {
			c := c
			spawn(func() {
				st, err := c.NewStream("T1.SB")
				if err != nil {
					return
				}
				var b []byte
				st.ReadMessage(nil, &b) // the push
				st.ReadMessage(nil, &b) // blocks until the stream or connection ends
			})
		}
	}
	var tr *rpc.Transport
	if p.transp {
		tr = &rpc.Transport{MaxConnsPerHost: 3 + p.idx%3, MaxIdleConnsPerHost: 2 + p.idx%3, KeepAlive: 2 * time.Second, IdleConnTimeout: 9 * time.Second, Options: r.Options()}
		tc := rig.TransportCaller{T: tr, Addr: addr}
		for i := 0; i < 6; i++ {
			call(tc, uint64(10+i), 0, rig.Forms[i%4])
		}
		if p.idx%3 == 1 {
			rig.Do(tc, rig.FormCall, svc.CodecBytes, "S.Nope", svc.Spec{Run: uint32(p.idx), Conn: 1, Caller: 3, Counter: 3, ReplyLen: 10}, 64, nil)
		}
		if p.inflight {
			spawn(func() { call(tc, 20, gateDelayUs, rig.FormCall) })
		}
		if p.streams {
			spawn(func() {
				st, err := tc.NewStream("T0.SB")
				if err == nil {
					var b []byte
					st.ReadMessage(nil, &b)
				}
			})
		}
	}
	var cl *rpc.Client
	if p.client {
		cl = rpc.NewClient(nil)
		cl.Transport = &rpc.Transport{MaxConnsPerHost: 2, Options: r.Options()}
		cl.DialTimeout = 10 * time.Second
		targets := []string{addr}
		if p.waiters {
			targets = []string{"nowhere-1", "nowhere-2"} // nobody listens: callers wait
		}
		cl.Update(targets...)
		time.Sleep(150 * time.Millisecond)
		if p.waiters {
			for i := 0; i < 3; i++ {
				i := i
				spawn(func() { call(cl, uint64(30+i), 0, rig.Forms[i%4]) })
			}
		} else {
			call(cl, 40, 0, rig.FormCall)
			if p.inflight {
				spawn(func() { call(cl, 41, gateDelayUs, rig.FormCall) })
			}
		}
	}
	if cl != nil && p.idx%4 == 1 {
		// a routing pause that is still pending when the Client is closed
		cl.Fallback(20 * time.Second)
		time.Sleep(350 * time.Millisecond)
	}
	// let a few housekeeping ticks happen
	time.Sleep(time.Duration(100+rand.New(rand.NewSource(p.seed)).Intn(6000)) * time.Millisecond)
	synctest.Wait()
	if p.deadPeer {
		for _, pr := range r.Net.Pairs() {
			if pr.ID%2 == 0 {
				pr.Break(memnet.KindReset)
			}
		}
		synctest.Wait()
	}
	// close the participants in the chosen order; every Close twice
	for _, who := range p.order {
		switch who {
		case "conns":
			for i, c := range conns {
				e1 := c.Close()
				e2 := c.Close()
				if e2 != rpc.ErrShutdown {
					bad("C20/life/conn-second-close", fmt.Sprintf("second Conn.Close on connection %d returned %v (first %v), expected ErrShutdown", i, e2, e1))
				}
			}
		case "transport":
			if tr != nil {
				e1 := tr.Close()
				e2 := tr.Close()
				if e1 != nil || e2 != nil {
					bad("C20/life/transport-close", fmt.Sprintf("Transport.Close returned %v, then %v; both must be nil", e1, e2))
				}
			}
		case "client":
			if cl != nil {
				e1 := cl.Close()
				e2 := cl.Close()
				if e1 != nil || e2 != nil {
					bad("C20/life/client-close", fmt.Sprintf("Client.Close returned %v, then %v; both must be nil", e1, e2))
				}
			}
		case "server":
			e1 := r.Server.Close()
			e2 := r.Server.Close()
			if e1 != nil || e2 != nil {
				bad("C20/life/server-close", fmt.Sprintf("Server.Close returned %v, then %v; both must be nil", e1, e2))
			}
		}
		if p.idx%2 == 0 {
			synctest.Wait()
		}
	}
	// the peers go: blocked handlers are released
	close(gate)
	env := vEnv{}
	settled := env.Settle(func() bool {
		ret, _ := r.ListenReturned()
		u, s := r.Ledger.Running()
		return ret && u == 0 && s == 0 && atomic.LoadInt32(&pendingOps) == 0
	}, time.Minute)
	time.Sleep(5 * time.Second) // tickers would fire if they were still running
	synctest.Wait()
	if ret, _ := r.ListenReturned(); !ret {
		bad("C20/life/listen-not-returned", "ListenWithOptions has not returned after Server.Close")
	}
	if !settled {
		u, s := r.Ledger.Running()
		if u > 0 || s > 0 {
			bad("C20/life/handlers-running", fmt.Sprintf("%d unary and %d stream handlers have not returned a virtual minute after everything was closed", u, s))
		}
		if n := atomic.LoadInt32(&pendingOps); n > 0 {
			bad("C20/life/callers-blocked", fmt.Sprintf("%d client-side operations are still blocked a virtual minute after everything was closed", n))
		}
	}
	if n := r.Net.LiveTotal(); n != 0 {
		bad("C20/life/client-conn-open", fmt.Sprintf("%d client-side connections are still open after every participant was closed", n))
	}
	if n := r.Net.OpenServerEnds(); n != 0 {
		bad("C20/life/server-conn-open", fmt.Sprintf("%d server-side connections are still open after Server.Close and after their peers have gone", n))
	}
	after := libGoroutines()
	leaked := map[string]int{}
	for id, st := range after {
		if _, ok := baseline[id]; ok {
			continue
		}
		leaked[innermostLib(st)]++
	}
	for fn, n := range leaked {
		bad("C20/life/goroutine-leak/"+fn, fmt.Sprintf("%d goroutines started by the library are still alive after Close, innermost library frame %s", n, fn))
	}
	out.Stats["goroutines_with_library_frames_after"] = int64(len(after))
	out.Sig = p.String()
	out.Nontrivial = true
	return out
}

func lifecycleEngine(a Args) {
	var x struct{}
	json.Unmarshal(a.Extra, &x)
	for idx := a.From; idx < a.To; idx += a.Stride {
		cs := fmt.Sprintf("lifecycle/%d", idx)
		if !wantCase(a, cs) {
			continue
		}
		mon.Progress("lifecycle", cs)
		p := genLife(a.Seed, idx)
		o := runLife(p)
		if idx%40 == 0 {
			o.Sample = map[string]interface{}{"history": p.String()}
		}
		emit("lifecycle", cs, a, o)
	}
}
