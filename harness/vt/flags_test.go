//go:build go1.25

package vt

import (
	"encoding/json"
	"fmt"
	"sync"
	"testing/synctest"

	"verif/harness/mon"
	"verif/harness/rig"
	"verif/harness/scen"
	"verif/harness/svc"
	"verif/harness/wire"
)

// Engine "flags" decides the flag clauses of C04 on the virtual-time
// substrate: a raw peer (frames written below the client library, straight
// into the connection's message layer) sends one request frame for every one
// of the 256 upgrade bytes x {unary method, stream method, unknown method,
// no method} x {payload, empty body}, on every header encoder and server I/O
// mode, one at a time with quiescence in between. The handler ledger and the
// responses read from the raw connection are the observations.
//
// What is judged is what the statement says and nothing a correct server
// could do differently:
//   - a message with the Heartbeat flag is a Ping whatever else its upgrade
//     byte carries: it invokes no handler, unary or stream, and delivers no
//     stream message to a handler;
//   - no frame is answered more than once with its own sequence number,
//     unless it legitimately opened a stream (whose handler may push);
//   - no frame makes a handler run more than once;
//   - a plain request (upgrade byte 0) for a registered unary method is
//     executed exactly once and answered exactly once (the control case).

func init() { engines["flags"] = flagsEngine }

type flagsExtra struct{}

type rawPeer struct {
	mu   sync.Mutex
	ress []wire.Res
	eof  bool
}

func runFlags(seed int64, idx int) *scen.Outcome {
	out := &scen.Outcome{Stats: map[string]int64{}}
	hdr := wire.Formats[idx%4]
	m := cutModes[(idx/4)%len(cutModes)]
	kind := (idx / (4 * len(cutModes))) % 4 // 0 unary, 1 stream, 2 unknown, 3 empty method
	body := (idx / (16 * len(cutModes))) % 2
	cfg := rig.Config{Network: "mem", Header: hdr, Codec: svc.CodecBytes, SrvPipelining: m.sp, SrvDirect: m.sd, Pushes: []int{0, 1}}
	method := []string{"S.B0", "T0.SB", "S.Nope", ""}[kind]
	desc := fmt.Sprintf("%s method=%q body=%d", cfg, method, body)
	bad := func(fsig, what string) {
		if len(out.Findings) < 6 {
			out.Findings = append(out.Findings, scen.Finding{Prop: "C04", FSig: fsig, What: what + " [" + desc + "]"})
		}
	}
	r := rig.Start(cfg, nil, fmt.Sprintf("fl-%d", idx), seed)
	if err := r.WaitUp(); err != nil {
		out.Inconclusive = "server did not come up"
		return out
	}
	defer func() {
		r.Server.Close()
		synctest.Wait()
	}()
	var peer *rawPeer
	var write func([]byte) error
	var closeConn func()
	dial := func() bool {
		c, err := r.Net.Socket().Dial(r.Addr)
		if err != nil {
			return false
		}
		msgs := c.Messages()
		p := &rawPeer{}
		peer = p
		go func() {
			for {
				b, err := msgs.ReadMessage(nil)
				if err != nil {
					p.mu.Lock()
					p.eof = true
					p.mu.Unlock()
					return
				}
				if res, err := wire.DecodeRes(hdr, b, false); err == nil {
					p.mu.Lock()
					p.ress = append(p.ress, res)
					p.mu.Unlock()
				}
			}
		}()
		write = msgs.WriteMessage
		closeConn = func() { c.Close() }
		return true
	}
	if !dial() {
		out.Inconclusive = "raw dial failed"
		return out
	}
	seq := uint64(0)
	for b := 0; b < 256; b++ {
		peer.mu.Lock()
		dead := peer.eof
		peer.mu.Unlock()
		if dead {
			closeConn()
			if !dial() {
				out.Inconclusive = "raw re-dial failed"
				return out
			}
			seq = 0
			out.Stats["connections_ended_by_a_frame"]++
		}
		fl := wire.ParseFlags(byte(b))
		seq++
		spec := svc.Spec{Run: uint32(idx + 1), Conn: 7, Caller: uint32(b), Counter: seq, ReplyLen: 12, Fill: 20}
		var args []byte
		if body == 0 {
			args = svc.Build(spec)
		}
		ex0, st0, _ := r.Ledger.Snapshot()
		reads0 := 0
		for _, s := range st0 {
			reads0 += len(s.Reads)
		}
		peer.mu.Lock()
		res0 := len(peer.ress)
		peer.mu.Unlock()
		if write(wire.EncodeReq(hdr, wire.Req{Seq: seq, Upgrade: []byte{byte(b)}, Method: method, Args: args})) != nil {
			continue
		}
		synctest.Wait()
		ex1, st1, _ := r.Ledger.Snapshot()
		reads1 := 0
		for _, s := range st1 {
			reads1 += len(s.Reads)
		}
		peer.mu.Lock()
		var mine int
		for _, x := range peer.ress[res0:] {
			if x.Seq == seq {
				mine++
			}
		}
		peer.mu.Unlock()
		execs, opens, delivered := len(ex1)-len(ex0), len(st1)-len(st0), reads1-reads0
		out.Stats["frames"]++
		what := fmt.Sprintf("upgrade byte %#02x (noRequest=%v noResponse=%v heartbeat=%v stream=%d)", b, fl.NoRequest, fl.NoResponse, fl.Heartbeat, fl.Stream)
		if fl.Heartbeat && (execs > 0 || opens > 0 || delivered > 0) {
			bad("C04/flags/ping-invoked-handler", fmt.Sprintf("a message with the Heartbeat flag, %s, made %d unary handlers run, started %d stream handlers and delivered %d stream messages to handlers: Ping never invokes a handler", what, execs, opens, delivered))
		}
		if execs > 1 || opens > 1 {
			bad("C04/flags/executed-twice", fmt.Sprintf("one frame, %s, made %d unary handlers run and started %d stream handlers", what, execs, opens))
		}
		if mine > 1 && opens == 0 {
			bad("C04/flags/answered-twice", fmt.Sprintf("one frame, %s, was answered %d times with its sequence number", what, mine))
		}
		if b == 0 && kind == 0 && (execs != 1 || mine != 1) {
			bad("C04/flags/plain-request", fmt.Sprintf("a plain request for a registered method was executed %d times and answered %d times", execs, mine))
		}
		if fl.Heartbeat {
			out.Stats["heartbeat_frames"]++
		}
	}
	closeConn()
	out.Sig = "flags/" + desc
	out.Nontrivial = true
	return out
}

func flagsEngine(a Args) {
	var x flagsExtra
	json.Unmarshal(a.Extra, &x)
	for idx := a.From; idx < a.To; idx += a.Stride {
		cs := fmt.Sprintf("flags/%d", idx)
		if !wantCase(a, cs) {
			continue
		}
		mon.Progress("flags", cs)
		o := runFlags(a.Seed, idx)
		if idx%40 == 0 {
			o.Sample = map[string]interface{}{"scenario": o.Sig}
		}
		emit("flags", cs, a, o)
	}
}
