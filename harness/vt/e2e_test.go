//go:build go1.25

package vt

import (
	"encoding/json"
	"fmt"
	"math/rand"

	"verif/harness/mon"
	"verif/harness/rig"
	"verif/harness/scen"
	"verif/harness/svc"
	"verif/harness/wire"
)

func init() { engines["e2e"] = e2eEngine }

type e2eExtra struct {
	Profile string `json:"profile"`
	Scale   int    `json:"scale"` // ops multiplier (1 = quick)
}

// genE2E derives scenario number idx of a profile from the seed.
func genE2E(seed int64, idx int, profile string, scale int) scen.E2E {
	rng := rand.New(rand.NewSource(seed*1000003 + int64(idx)*7919 + int64(len(profile))))
	if scale < 1 {
		scale = 1
	}
	p := scen.E2E{Profile: profile, Run: uint32(idx + 1), Seed: rng.Int63(), Via: "conn"}
	cfg := rig.Config{Network: "mem"}
	cfg.Header = wire.Formats[rng.Intn(4)]
	cfg.Codec = svc.Codecs[rng.Intn(4)]
	cfg.SrvPipelining = rng.Intn(3) == 0
	cfg.SrvDirect = rng.Intn(3) == 0
	cfg.SrvShared = rng.Intn(4) == 0
	cfg.CliPipelining = rng.Intn(4) == 0
	cfg.CliDirect = rng.Intn(3) == 0
	if cfg.Codec == svc.CodecJSON && rng.Intn(4) == 0 {
		cfg.SrvNoCopy = true
	}
	cfg.Frag = []int{0, 0, 1, 3, 7, 64, 1000, 4096}[rng.Intn(8)]
	if rng.Intn(3) == 0 {
		cfg.SrvBuf = []int{64, 512, 4096, 65536, 262144, 3000, 100, 70000}[rng.Intn(8)]
	}
	if rng.Intn(3) == 0 {
		cfg.CliBuf = []int{64, 512, 4096, 65536, 262144, 3000, 100, 70000}[rng.Intn(8)]
	}
	p.Conns = 1 + rng.Intn(4)
	p.Callers = 1 + rng.Intn(8)
	p.NOps = (5 + rng.Intn(25)) * scale
	p.Streams = 0
	switch profile {
	case "mix":
		if rng.Intn(2) == 0 {
			p.Streams = rng.Intn(3)
		}
		if rng.Intn(10) == 0 {
			p.Callers = 16 + rng.Intn(48)
			p.NOps = 3 + rng.Intn(5)
		}
		switch rng.Intn(8) {
		case 0:
			p.Via = "transport"
		case 1:
			p.Via = "client"
		}
	case "order":
		cfg.SrvPipelining = true
		cfg.CliPipelining = rng.Intn(3) != 0
		p.Conns = 1 + rng.Intn(6)
		p.NOps = (20 + rng.Intn(180)) * scale
		if idx%4 == 3 {
			p.Teardown = true
			p.NOps = 4 + rng.Intn(20)
		}
	case "errors":
	case "streams":
		p.Streams = 1 + rng.Intn(6)
		if rng.Intn(8) == 0 {
			p.Streams = 16
		}
		p.Callers = rng.Intn(4)
		p.NOps = 5 + rng.Intn(20)
	case "retain":
		cfg.Codec = []string{svc.CodecBytes, svc.CodecPB, svc.CodecCode, svc.CodecBytes}[rng.Intn(4)]
		cfg.SrvNoCopy = false
		p.Streams = rng.Intn(3)
		p.NOps = (20 + rng.Intn(40)) * scale
	case "ctx":
		cfg.Codec = []string{svc.CodecBytes, svc.CodecBytes, svc.CodecPB, svc.CodecJSON}[rng.Intn(4)]
		p.NOps = (10 + rng.Intn(30)) * scale
		switch rng.Intn(4) {
		case 0:
			p.Via = "transport"
			p.HookDelayUs = 1 + rng.Intn(8000)
		case 1:
			p.Via = "client"
			p.HookDelayUs = 1 + rng.Intn(8000)
		}
	}
	if cfg.Frag > 0 && cfg.Frag < 64 {
		// byte-at-a-time delivery of a 300 KB payload costs 10^5 reads per message
		p.NOps = min(p.NOps, 12)
	}
	p.Cfg = cfg
	return p
}

func e2eEngine(a Args) {
	var x e2eExtra
	json.Unmarshal(a.Extra, &x)
	if x.Profile == "" {
		x.Profile = "mix"
	}
	for idx := a.From; idx < a.To; idx += a.Stride {
		cs := fmt.Sprintf("e2e/%s/%d", x.Profile, idx)
		if !wantCase(a, cs) {
			continue
		}
		mon.Progress("e2e", cs)
		p := genE2E(a.Seed, idx, x.Profile, x.Scale)
		o := scen.RunE2E(vEnv{}, p)
		if idx%50 == 0 {
			o.Sample = map[string]interface{}{"scenario": p.String()}
		}
		emit("e2e", cs, a, o)
	}
}
