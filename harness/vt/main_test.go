//go:build go1.25

// Package vt holds the engines that run inside one testing/synctest bubble
// per process (substrate V of DESIGN.md).
package vt

import (
	"encoding/json"
	"fmt"
	"os"
	"syscall"
	"testing"
	"testing/synctest"
	"time"

	"verif/harness/mon"
)

// Args is the job description passed by the driver in $VT_ARGS (JSON).
type Args struct {
	Engine string          `json:"engine"`
	Prop   string          `json:"prop"`
	Tier   string          `json:"tier"`
	Seed   int64           `json:"seed"`
	From   int             `json:"from"`
	To     int             `json:"to"`
	Stride int             `json:"stride"`
	Cases  []string        `json:"cases,omitempty"`
	Extra  json.RawMessage `json:"extra,omitempty"`
}

var engines = map[string]func(a Args){}

func TestBubble(t *testing.T) {
	var a Args
	if err := json.Unmarshal([]byte(os.Getenv("VT_ARGS")), &a); err != nil {
		fmt.Fprintln(os.Stderr, "vt: bad VT_ARGS:", err)
		os.Exit(3)
	}
	run, ok := engines[a.Engine]
	if !ok {
		fmt.Fprintln(os.Stderr, "vt: unknown engine", a.Engine)
		os.Exit(3)
	}
	if a.Stride <= 0 {
		a.Stride = 1
	}
	mon.Open()
	mon.StartDeadlockWatch(a.Prop, a.Engine, 12*time.Second, func() { syscall.Exit(0) })
	synctest.Test(t, func(t *testing.T) {
		run(a)
		mon.Done(a.Engine)
		mon.Close()
		// Leave without unwinding the bubble: goroutines a violated scenario
		// left blocked must not turn into a bubble-exit panic.
		syscall.Exit(0)
	})
}
