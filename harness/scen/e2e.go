package scen

import (
	"bytes"
	"context"
	"fmt"
	"math/rand"
	"os"
	"runtime"
	"sort"
	"strings"
	"sync"
	"sync/atomic"
	"time"

	"github.com/hslam/rpc"
	"verif/harness/memnet"
	"verif/harness/rig"
	"verif/harness/svc"
)

// Env abstracts the substrate: how to let the system run.
type Env interface {
	// Settle lets the system run until done() holds or budget (virtual or
	// real time) is used up; it reports whether done() held.
	Settle(done func() bool, budget time.Duration) bool
	// Virtual reports whether time is virtual (exact timing oracles apply).
	Virtual() bool
}

// Finding is one oracle verdict against a property.
type Finding struct {
	Prop    string
	What    string
	FSig    string
	Witness interface{}
}

// Outcome is what a scenario reports.
type Outcome struct {
	Findings     []Finding
	Inconclusive string
	Stats        map[string]int64
	Sig          string
	Nontrivial   bool
	Sample       interface{}
}

func (o *Outcome) add(prop, fsig, what string, w interface{}) {
	if len(o.Findings) < 30 {
		o.Findings = append(o.Findings, Finding{Prop: prop, What: what, FSig: fsig, Witness: w})
	}
}

func (o *Outcome) stat(k string, v int64) {
	if o.Stats == nil {
		o.Stats = map[string]int64{}
	}
	o.Stats[k] += v
}

func (o *Outcome) statMax(k string, v int64) {
	if o.Stats == nil {
		o.Stats = map[string]int64{}
	}
	if v > o.Stats[k] {
		o.Stats[k] = v
	}
}

// Op kinds.
const (
	KCall        = "call"
	KFail        = "fail"
	KNoMethod    = "nomethod"
	KUndecodable = "undecodable"
	KBadReply    = "badreply"
	KBadReq      = "badreq"
	KPing        = "ping"
	KCtxCancel   = "ctxcancel"
)

// Op is one client operation of a scenario.
type Op struct {
	Kind    string
	Form    string
	Shape   int
	Spec    svc.Spec
	BufCap  int
	Timeout time.Duration // ctxcancel
	Rec     *rig.CallRec
	Elapsed time.Duration
	PingErr error
	done    int32
	// async (order profile)
	call    *rpc.Call
	Arrival int // position on the shared Done channel, -1 if none
}

func (o *Op) isDone() bool { return atomic.LoadInt32(&o.done) == 1 }

// StreamPlan is the script of one client stream.
type StreamPlan struct {
	ID         uint64
	Push       int
	WriteFirst bool // client writes its first message before reading pushes
	Steps      []StreamStep
	// results
	OpenErr   error
	Reads     []StreamRead
	Problem   string
	CanaryHit string
	done      int32
	stage     atomic.Value // string
	ups       uint32
	readKept  [][]byte
}

// StreamStep is one client write plus the reads it entitles the client to.
type StreamStep struct {
	Kind byte
	N    uint32 // burst size
	Size int
}

// StreamRead is one message read by the client.
type StreamRead struct {
	Info svc.StreamInfo
	Len  int
	Sum  [32]byte
}

// E2E describes one end-to-end scenario.
type E2E struct {
	Cfg     rig.Config
	Profile string
	Run     uint32
	Seed    int64
	Conns   int
	Callers int
	NOps    int
	Streams int
	Via     string // "conn" (default), "transport", "client"
	// HookDelayUs > 0 installs hook H1 (transport.gotConn) sleeping up to that
	// many microseconds between obtaining a pooled connection and using it
	HookDelayUs int
	// Teardown (profile "order" only): the client closes each connection
	// while its pipelined calls are still queued or executing on the server;
	// only what the server does with the requests it has received is judged
	Teardown bool
	// Hold (profile "order", real time only): nothing is closed; the first
	// request of the first connection is held at a gate while a call on a new
	// connection must complete (connections stay independent while alive)
	Hold    bool
	virtual bool
}

func (p E2E) String() string {
	s := fmt.Sprintf("%s %s conns=%d callers=%d ops=%d streams=%d via=%s", p.Profile, p.Cfg, p.Conns, p.Callers, p.NOps, p.Streams, p.Via)
	if p.Teardown {
		s += " teardown"
	}
	return s
}

type e2eConn struct {
	idx     int
	conn    *rpc.Conn
	caller  rig.Caller
	pair    *memnet.Pair
	ops     [][]*Op // per caller
	streams []*StreamPlan
	arrived []*rpc.Call
}

var sizeBoundaries = []int{0, 1, 87, 88, 127, 128, 1000, 4096, 16343, 16344, 16384, 65496, 65536 - 40, 65536, 65537, 65536 + 11, 65536 + 32, 131072}

func pickFill(rng *rand.Rand, big bool) int {
	switch r := rng.Intn(20); {
	case r < 10:
		return rng.Intn(300)
	case r < 15:
		return rng.Intn(5000)
	case r < 18:
		return sizeBoundaries[rng.Intn(len(sizeBoundaries))]
	case big && r == 18:
		return 300000
	default:
		return rng.Intn(70000)
	}
}

func genOp(rng *rand.Rand, p E2E, conn, caller int, counter uint64) *Op {
	o := &Op{Arrival: -1}
	o.Form = rig.Forms[rng.Intn(len(rig.Forms))]
	o.Shape = rng.Intn(4)
	big := p.Profile == "mix" || p.Profile == "retain" || p.Profile == "matrix"
	o.Spec = svc.Spec{Run: p.Run, Conn: uint32(conn), Caller: uint32(caller), Counter: counter,
		DelayUs: uint32(rng.Intn(5000)), Fill: pickFill(rng, big), ReplyLen: uint32(pickFill(rng, big))}
	if rng.Intn(4) == 0 {
		o.Spec.DelayUs = 0
	}
	if p.Run%2 == 0 {
		// handler delays from a tiny set: many handlers of one connection
		// finish at the same (virtual) instant and write their responses
		// truly in parallel
		o.Spec.DelayUs = []uint32{0, 500, 1000}[rng.Intn(3)]
	}
	if rng.Intn(12) == 0 {
		// a reply with no content at all
		o.Spec.Flags |= svc.FlagEmptyReply
	}
	// frames just below and above the configured buffer sizes (between a
	// size that is not a pool size class and the capacity of its class)
	if p.Cfg.SrvBuf > 64 && rng.Intn(5) == 0 {
		o.Spec.Fill = max(0, p.Cfg.SrvBuf-120+rng.Intn(400))
	}
	if p.Cfg.CliBuf > 64 && rng.Intn(5) == 0 {
		o.Spec.ReplyLen = uint32(max(0, p.Cfg.CliBuf-120+rng.Intn(400)))
	}
	o.BufCap = []int{0, 1, 64, 1024, 70000, int(o.Spec.ReplyLen) + svc.IDLen + 32, int(o.Spec.ReplyLen) + svc.IDLen + 31, int(o.Spec.ReplyLen) + svc.IDLen + 33}[rng.Intn(8)]
	if rng.Intn(3) == 0 && o.Spec.ReplyLen < 70000 {
		// exactly at, one below and one above the encoded reply
		enc := rig.EncodedLenFor(p.Cfg.Codec, int(o.Spec.ReplyLen)+svc.IDLen+32)
		o.BufCap = enc - 1 + rng.Intn(3)
	}
	o.Kind = KCall
	failing := 0
	switch p.Profile {
	case "errors":
		failing = 45
	case "mix", "order", "matrix":
		failing = 25
	case "retain", "ctx":
		failing = 5
	}
	if rng.Intn(100) < failing {
		kinds := []string{KFail, KFail, KFail, KNoMethod, KUndecodable, KBadReply, KBadReq}
		o.Kind = kinds[rng.Intn(len(kinds))]
		if o.Kind == KFail {
			lens := []int{1, 2, 30, 127, 128, 129, 300, 16383, 16384, 40000}
			o.Spec.FailLen = uint32(lens[rng.Intn(len(lens))])
			if p.Cfg.Header != "json" && rng.Intn(2) == 0 {
				o.Spec.Flags |= svc.FlagRawErr
			}
		}
	} else if rng.Intn(100) < 6 {
		o.Kind = KPing
	} else if (p.Profile == "ctx" && rng.Intn(100) < 35) || (p.Profile == "mix" && rng.Intn(100) < 4) {
		o.Kind = KCtxCancel
		o.Timeout = time.Duration(1+rng.Intn(20)) * time.Millisecond
		o.Spec.DelayUs = uint32(o.Timeout/time.Microsecond) + 1000 + uint32(rng.Intn(30000))
		if rng.Intn(2) == 0 {
			o.Form = rig.FormCtxBuf
		} else {
			o.Form = rig.FormCtx
		}
	}
	return o
}

func genStream(rng *rand.Rand, p E2E, id uint64, pushes []int) *StreamPlan {
	sp := &StreamPlan{ID: id, Push: pushes[rng.Intn(len(pushes))], WriteFirst: rng.Intn(2) == 0}
	n := rng.Intn(12)
	if p.Profile == "streams" {
		n = rng.Intn(60)
	}
	for i := 0; i < n; i++ {
		st := StreamStep{Kind: svc.KindEcho}
		switch rng.Intn(6) {
		case 0:
			st.Kind = svc.KindSink
		case 1:
			st.Kind = svc.KindBurst
			st.N = uint32(rng.Intn(5))
		}
		if p.Profile == "streams" && rng.Intn(12) == 0 {
			// a message with an empty payload between the others
			sp.Steps = append(sp.Steps, StreamStep{Kind: svc.KindEmpty})
			continue
		}
		switch rng.Intn(10) {
		case 0:
			st.Size = svc.StreamHdr
		case 1:
			st.Size = 65536 + rng.Intn(100)
		case 2:
			st.Size = 100000
		default:
			st.Size = svc.StreamHdr + rng.Intn(600)
		}
		sp.Steps = append(sp.Steps, st)
	}
	// messages still queued when a stream is closed may be discarded by design;
	// a final echo makes sure the server has consumed everything before Close
	if n := len(sp.Steps); n > 0 && sp.Steps[n-1].Kind != svc.KindEcho {
		sp.Steps = append(sp.Steps, StreamStep{Kind: svc.KindEcho, Size: svc.StreamHdr + 5})
	}
	return sp
}

// DefaultPushes is the set of push counts registered on every e2e server.
var DefaultPushes = []int{0, 1, 5}

// reuse, when not nil, is the caller goroutine's own reply variable: it is
// decoded into by every plain call of that caller while the values of the
// earlier calls are kept.
func (c *e2eConn) doOp(p E2E, o *Op, reuse svc.Box) {
	codec := p.Cfg.Codec
	method := rig.Method(codec, o.Shape)
	switch o.Kind {
	case KCall, KFail:
		var opt *rig.DoOpt
		if reuse != nil {
			opt = &rig.DoOpt{Out: reuse}
		}
		o.Rec = rig.Do(c.caller, o.Form, codec, method, o.Spec, o.BufCap, opt)
	case KNoMethod:
		o.Rec = rig.Do(c.caller, o.Form, codec, "S.Nope", o.Spec, o.BufCap, nil)
	case KUndecodable:
		args := svc.Build(o.Spec)
		switch codec {
		case svc.CodecJSON:
			o.Rec = rig.Do(c.caller, o.Form, codec, "S.JMismatch", o.Spec, o.BufCap, nil)
		case svc.CodecPB:
			o.Rec = rig.Do(c.caller, o.Form, codec, method, o.Spec, o.BufCap, &rig.DoOpt{Args: &svc.PRaw{B: append([]byte{0xff, 0xff}, args...)}})
		case svc.CodecCode:
			o.Rec = rig.Do(c.caller, o.Form, codec, method, o.Spec, o.BufCap, &rig.DoOpt{Args: &svc.CRaw{B: append([]byte{0xff, 0xff, 0xff, 0xff, 0xff, 0xff, 0xff, 0xff, 0xff, 0xff, 0x7f}, args...)}})
		default:
			o.Kind = KNoMethod
			o.Rec = rig.Do(c.caller, o.Form, codec, "S.Nope", o.Spec, o.BufCap, nil)
		}
	case KBadReply:
		m := svc.BadReplyMethod(codec)
		if m == "" {
			o.Kind = KNoMethod
			o.Rec = rig.Do(c.caller, o.Form, codec, "S.Nope", o.Spec, o.BufCap, nil)
			break
		}
		var reply interface{}
		switch codec {
		case svc.CodecJSON:
			reply = &svc.JBad{}
		case svc.CodecPB:
			reply = &svc.PBad{}
		case svc.CodecCode:
			reply = &svc.CBad{}
		}
		o.Rec = rig.Do(c.caller, o.Form, codec, m, o.Spec, o.BufCap, &rig.DoOpt{Reply: reply})
	case KBadReq:
		var args interface{}
		switch codec {
		case svc.CodecJSON:
			args = &svc.JBad{F: func() {}, Slow: o.Spec.Counter%2 == 0}
		case svc.CodecPB:
			args = &svc.PBad{Slow: o.Spec.Counter%2 == 0}
		case svc.CodecCode:
			args = &svc.CBad{Slow: o.Spec.Counter%2 == 0}
		default:
			o.Kind = KNoMethod
			o.Rec = rig.Do(c.caller, o.Form, codec, "S.Nope", o.Spec, o.BufCap, nil)
			return
		}
		o.Rec = rig.Do(c.caller, o.Form, codec, method, o.Spec, o.BufCap, &rig.DoOpt{Args: args})
	case KPing:
		o.PingErr = c.caller.Ping()
	case KCtxCancel:
		ctx, cancel := context.WithTimeout(context.Background(), o.Timeout)
		t0 := time.Now()
		o.Rec = rig.Do(c.caller, o.Form, codec, method, o.Spec, o.BufCap, &rig.DoOpt{Ctx: ctx})
		o.Elapsed = time.Since(t0)
		cancel()
	}
}

func (sp *StreamPlan) setStage(s string) { sp.stage.Store(s) }

func (sp *StreamPlan) run(c *e2eConn, p E2E, retain bool) {
	defer atomic.StoreInt32(&sp.done, 1)
	codec := p.Cfg.Codec
	sp.setStage("open")
	st, err := c.caller.NewStream(svc.StreamMethod(sp.Push, codec))
	if err != nil {
		sp.OpenErr = err
		return
	}
	nread := 0
	var reuse svc.Box
	if retain && sp.ID%2 == 1 {
		reuse = svc.NewBox(codec) // one message variable for every read, earlier values kept
	}
	read := func(what string) bool {
		sp.setStage("read " + what)
		box := reuse
		if box == nil {
			box = svc.NewBox(codec)
		}
		// a caller-supplied buffer of varying capacity, canary-filled
		nread++
		var ubuf []byte
		if c := []int{-1, 0, 16, 64, 700, 4096, 70001, 131072}[(int(sp.ID)+nread)%8]; c >= 0 {
			ubuf = make([]byte, c)
			for i := range ubuf {
				ubuf[i] = 0xA5
			}
		}
		if err := st.ReadMessage(ubuf, box.Ptr()); err != nil {
			sp.Problem = fmt.Sprintf("ReadMessage (%s) failed on an open stream: %v", what, err)
			return false
		}
		b := box.Get()
		if len(ubuf) > 0 && len(b) > 0 && len(b) <= len(ubuf) && &b[0] == &ubuf[0] {
			for i := len(b); i < len(ubuf); i++ {
				if ubuf[i] != 0xA5 {
					sp.CanaryHit = fmt.Sprintf("ReadMessage with a caller-supplied buffer of %d bytes returned a %d-byte message and overwrote byte %d of the buffer", len(ubuf), len(b), i)
					break
				}
			}
		}
		sp.Reads = append(sp.Reads, StreamRead{Info: svc.ParseStream(b), Len: len(b), Sum: svc.Sum(b)})
		if retain {
			sp.readKept = append(sp.readKept, b)
		}
		return true
	}
	write := func(i int, s StreamStep) bool {
		sp.setStage(fmt.Sprintf("write %d", i))
		box := svc.NewBox(codec)
		if s.Kind == svc.KindEmpty {
			box.Set([]byte{})
		} else {
			box.Set(svc.StreamMsg(sp.ID, svc.DirUp, sp.ups, s.Kind, s.N, s.Size))
		}
		sp.ups++
		if err := st.WriteMessage(box.Ptr()); err != nil {
			sp.Problem = fmt.Sprintf("WriteMessage %d failed on an open stream: %v", i, err)
			return false
		}
		return true
	}
	expect := func(s StreamStep) int {
		switch s.Kind {
		case svc.KindEcho:
			return 1
		case svc.KindBurst:
			return int(s.N)
		}
		return 0
	}
	steps := sp.Steps
	owed := 0
	if sp.WriteFirst && len(steps) > 0 {
		if !write(0, steps[0]) {
			return
		}
		owed = expect(steps[0])
		steps = steps[1:]
	}
	for i := 0; i < sp.Push; i++ {
		if !read(fmt.Sprintf("push %d", i)) {
			return
		}
	}
	for i := 0; i < owed; i++ {
		if !read("answer to first write") {
			return
		}
	}
	for i, s := range steps {
		if !write(i+1, s) {
			return
		}
		for k := 0; k < expect(s); k++ {
			if !read(fmt.Sprintf("answer %d/%d to write %d", k, expect(s), i+1)) {
				return
			}
		}
	}
	sp.setStage("close")
	st.Close()
	if sp.ID%2 == 1 {
		// a second Close sends a close message for a stream the server no
		// longer knows; like every request message it is answered
		sp.setStage("close again")
		st.Close()
	}
	sp.setStage("closed")
}

// RunE2E runs one end-to-end scenario and applies every oracle that the
// scenario's observations can decide.
func RunE2E(env Env, p E2E) *Outcome { return RunE2EOn(env, p, nil) }

// RunE2EOn is RunE2E with a custom way to start the server (real networks).
func RunE2EOn(env Env, p E2E, start func(cfg rig.Config, seed int64) (*rig.Rig, error)) *Outcome {
	out := &Outcome{Stats: map[string]int64{}}
	rng := rand.New(rand.NewSource(p.Seed))
	p.virtual = env.Virtual()
	var tdGate chan struct{}
	defer func() {
		if tdGate != nil {
			close(tdGate)
		}
	}()
	cfg := p.Cfg
	cfg.Tap = true
	cfg.Retain = p.Profile == "retain" && !cfg.SrvNoCopy
	cfg.Pushes = DefaultPushes
	addr := fmt.Sprintf("srv-%d", p.Run)
	var r *rig.Rig
	if start != nil {
		var err error
		if r, err = start(cfg, p.Seed); err != nil {
			out.Inconclusive = "server did not start: " + err.Error()
			return out
		}
		addr = r.Addr
	} else {
		r = rig.Start(cfg, nil, addr, p.Seed)
		if err := r.WaitUp(); err != nil {
			out.Inconclusive = "server did not come up: " + err.Error()
			return out
		}
	}
	defer func() {
		r.Server.Close()
	}()
	var tr *rpc.Transport
	var cl *rpc.Client
	if p.Via == "transport" || p.Via == "client" {
		tr = &rpc.Transport{MaxConnsPerHost: p.Conns, MaxIdleConnsPerHost: p.Conns, Options: r.Options()}
	}
	if p.Via == "client" {
		cl = rpc.NewClient(nil)
		cl.Transport = tr
		cl.Update(addr)
		// let the client's detector find the target (its first ticks), so that
		// no operation of the workload starts by waiting for a live target
		time.Sleep(250 * time.Millisecond)
	}
	if p.HookDelayUs > 0 && tr != nil {
		var hmu sync.Mutex
		hrng := rand.New(rand.NewSource(p.Seed + 5))
		rpc.VerifSetHook(func(point string) {
			if point != "transport.gotConn" {
				return
			}
			hmu.Lock()
			d := time.Duration(hrng.Intn(p.HookDelayUs)) * time.Microsecond
			hmu.Unlock()
			time.Sleep(d)
		})
		defer rpc.VerifSetHook(nil)
	}
	conns := make([]*e2eConn, p.Conns)
	for i := range conns {
		c := &e2eConn{idx: i}
		switch p.Via {
		case "transport":
			c.caller = rig.TransportCaller{T: tr, Addr: addr}
		case "client":
			c.caller = cl
		default:
			conn, err := r.Dial()
			if err != nil {
				out.Inconclusive = "dial failed: " + err.Error()
				return out
			}
			c.conn = conn
			c.caller = conn
			if r.Net != nil {
				pairs := r.Net.Pairs()
				c.pair = pairs[len(pairs)-1]
			}
		}
		conns[i] = c
	}
	// generate the workload
	var all []*Op
	var allStreams []*StreamPlan
	nStream := uint64(0)
	for _, c := range conns {
		callers := p.Callers
		if p.Profile == "order" {
			callers = 1
		}
		c.ops = make([][]*Op, callers)
		for k := 0; k < callers; k++ {
			for j := 0; j < p.NOps; j++ {
				o := genOp(rng, p, c.idx, k, uint64(j))
				if p.Profile == "order" {
					o.Form = rig.FormGo
					if o.Kind == KCtxCancel || o.Kind == KPing {
						o.Kind = KCall
					}
				}
				if p.Cfg.Network == "ws" && o.Kind == KPing {
					// ws is claimed for calls only; besides, the answer to a connection's first ping is a
					// zero-length message, which hslam/websocket does not deliver
					o.Kind = KCall
				}
				if p.Profile == "matrix" && k == 0 && j == 1 && o.Kind == KCall {
					// a message larger than every configurable buffer, both ways
					o.Spec.Fill, o.Spec.ReplyLen = 300000, 280000
				}
				c.ops[k] = append(c.ops[k], o)
				all = append(all, o)
			}
		}
		for s := 0; s < p.Streams; s++ {
			nStream++
			sp := genStream(rng, p, uint64(p.Run)<<32|uint64(c.idx)<<16|nStream, DefaultPushes)
			c.streams = append(c.streams, sp)
			allStreams = append(allStreams, sp)
		}
	}
	if (p.Teardown || p.Hold) && len(conns) > 0 && len(conns[0].ops) > 0 && len(conns[0].ops[0]) > 0 {
		// the first request of the first connection runs for 300 ms: it is
		// still executing, with the rest queued behind it, long after its
		// connection has gone
		o := conns[0].ops[0][0]
		o.Kind = KCall
		o.Spec.DelayUs = 300000
		if !env.Virtual() {
			// in real time that handler waits for the scenario's gate instead
			// (decisions below are causal, not timed)
			tdGate = make(chan struct{})
			g := tdGate
			r.Ledger.Sleep = func(d time.Duration) {
				if d == 300*time.Millisecond {
					<-g
					return
				}
				time.Sleep(d)
			}
		}
	}
	// run it
	var wg sync.WaitGroup
	var gcStop int32
	if p.Profile == "retain" {
		go func() {
			// bounded: a scenario with a hung call waits 30 virtual minutes
			// for it, which must not turn into 600000 collections
			for i := 0; i < 2000 && atomic.LoadInt32(&gcStop) == 0; i++ {
				time.Sleep(3 * time.Millisecond)
				runtime.GC()
			}
		}()
	}
	for _, c := range conns {
		c := c
		if p.Profile == "order" {
			wg.Add(1)
			go func() {
				defer wg.Done()
				c.runOrdered(p, r)
			}()
		} else {
			for k := range c.ops {
				k := k
				wg.Add(1)
				go func() {
					defer wg.Done()
					var reuse svc.Box
					if p.Profile == "retain" && k%2 == 1 {
						reuse = svc.NewBox(p.Cfg.Codec)
					}
					for _, o := range c.ops[k] {
						c.doOp(p, o, reuse)
						atomic.StoreInt32(&o.done, 1)
					}
				}()
			}
		}
		for _, sp := range c.streams {
			sp := sp
			wg.Add(1)
			go func() {
				defer wg.Done()
				sp.run(c, p, cfg.Retain || p.Profile == "retain")
			}()
		}
	}
	allDone := func() bool {
		for _, o := range all {
			if !o.isDone() {
				return false
			}
		}
		for _, sp := range allStreams {
			if atomic.LoadInt32(&sp.done) == 0 {
				return false
			}
		}
		return true
	}
	if p.Hold && tdGate != nil {
		// wait for the gated handler to be entered, then probe
		env.Settle(func() bool { u, _ := r.Ledger.Running(); return u > 0 }, 5*time.Second)
		if u, _ := r.Ledger.Running(); u > 0 {
			probeNewConn(out, p, r, &tdGate, "a request of another, live connection was still executing")
		} else {
			close(tdGate)
			tdGate = nil
		}
	}
	finished := env.Settle(allDone, 30*time.Minute)
	atomic.StoreInt32(&gcStop, 1)
	if finished && p.Teardown && tdGate != nil {
		probeNewConn(out, p, r, &tdGate, "a request of an already closed connection was still executing")
	}
	if finished && p.Teardown && env.Virtual() {
		// "different connections stay independent": a connection opened now,
		// while requests of the closed connections are still executing, is
		// served at once (virtual time: the 300 ms handler is the only thing
		// that takes time)
		t0 := time.Now()
		if nc, err := r.Dial(); err != nil {
			out.add("C05", "C05/e2e/teardown-new-connection", fmt.Sprintf("dialing a new connection while requests of closed connections were still executing failed: %v (%s)", err, p.Cfg), nil)
		} else {
			rec := rig.Do(nc, rig.FormCall, p.Cfg.Codec, rig.Method(p.Cfg.Codec, 0), svc.Spec{Run: p.Run, Conn: 900, Caller: 99, Counter: 1, ReplyLen: 10}, 0, nil)
			d := time.Since(t0)
			if rec.Err != nil || d > 100*time.Millisecond {
				out.add("C05", "C05/e2e/teardown-new-connection", fmt.Sprintf("a connection opened while requests of an already closed connection were still executing was served only after %v of virtual time (err %v): it waited for the other connection's handlers (%s)", d, rec.Err, p.Cfg), nil)
			}
			out.stat("teardown_new_connection_calls", 1)
			nc.Close()
		}
	}
	if !finished {
		if !env.Virtual() {
			out.Inconclusive = "workload did not finish within the real-time budget (" + p.String() + ")"
			if dir := os.Getenv("VT_WORK"); dir != "" {
				buf := make([]byte, 1<<22)
				buf = buf[:runtime.Stack(buf, true)]
				os.MkdirAll(dir, 0o755)
				os.WriteFile(fmt.Sprintf("%s/hang-%d.stacks", dir, p.Run), buf, 0o644)
			}
		}
		hungOps, hungStreams := 0, 0
		// where did a hung call get stuck? the wire taps and the handler ledger tell
		reqSeq := map[string]uint64{}
		reqConn := map[string]int{}
		resSeen := map[string]bool{}
		if env.Virtual() {
			for _, c := range conns {
				if c.pair == nil {
					continue
				}
				v := View(c.pair, p.Cfg.Header, p.Cfg.Codec)
				for _, q := range v.Reqs {
					if q.ID != "" && !q.HasUp {
						reqSeq[q.ID] = q.Seq
						reqConn[q.ID] = c.idx
					}
				}
				for _, q := range v.Reqs {
					if q.ID == "" || q.HasUp {
						continue
					}
					for _, x := range v.Ress {
						if x.Seq == q.Seq {
							resSeen[q.ID] = true
						}
					}
				}
			}
		}
		execs, _, _ := r.Ledger.Snapshot()
		execd := map[string]int{}
		for _, e := range execs {
			execd[e.ID]++
		}
		for _, o := range all {
			if !o.isDone() {
				hungOps++
				if env.Virtual() && hungOps <= 3 {
					id := o.Spec.ID()
					_, written := reqSeq[id]
					switch {
					case written && execd[id] == 0 && o.Kind != KNoMethod && o.Kind != KUndecodable && !resSeen[id]:
						out.add("C04", "C04/e2e/request-never-executed", fmt.Sprintf("the request of %s %s (id %s) was written to a live connection but the server never executed or answered it; the caller is still waiting at quiescence (%s)", o.Form, o.Kind, id, p.Cfg), nil)
					case written && !resSeen[id]:
						out.add("C04", "C04/e2e/request-never-answered", fmt.Sprintf("the request of %s %s (id %s) was written to a live connection (executed %d times) but no response was ever written; the caller is still waiting at quiescence (%s)", o.Form, o.Kind, id, execd[id], p.Cfg), nil)
					default:
						out.add("C02", "C02/e2e/unary-hang/"+o.Kind, fmt.Sprintf("%s %s (%s, id %s) has not returned although the system is quiescent and no fault was injected (request written=%v, response on the wire=%v)", o.Form, o.Kind, p.Cfg, id, written, resSeen[id]), nil)
					}
					failingNeighbour := false
					for _, x := range all {
						if x.Spec.Conn == o.Spec.Conn && x != o && x.Kind != KCall && x.Kind != KPing {
							failingNeighbour = true
						}
					}
					if failingNeighbour && o.Kind == KCall {
						out.add("C06", "C06/e2e/neighbour-never-completed", fmt.Sprintf("a well-formed %s (id %s) sharing its connection with failing calls never completed (%s)", o.Form, id, p.Cfg), nil)
					}
				}
			}
		}
		for _, sp := range allStreams {
			if atomic.LoadInt32(&sp.done) == 0 {
				hungStreams++
				st, _ := sp.stage.Load().(string)
				if env.Virtual() && hungStreams <= 3 && strings.HasPrefix(st, "close") {
					out.add("C04", "C04/e2e/close-unanswered", fmt.Sprintf("Stream.Close (stage %q) of stream %d is blocked at quiescence: its close message was sent and the server never answered it (%s)", st, sp.ID, p.Cfg), nil)
				} else if env.Virtual() && hungStreams <= 3 {
					out.add("C09", "C09/e2e/stream-blocked/push="+fmt.Sprint(sp.Push > 0), fmt.Sprintf("stream %d (push=%d, writeFirst=%v, %s) is blocked in %q at quiescence: the message it waits for was written by the peer but never delivered",
						sp.ID, sp.Push, sp.WriteFirst, p.Cfg, st), map[string]interface{}{"reads_so_far": len(sp.Reads), "stage": st})
				}
			}
		}
		out.stat("hung_ops", int64(hungOps))
		out.stat("hung_streams", int64(hungStreams))
		// the calls that did complete are still judged for C01: a hung call
		// and a wrong reply are often two faces of one mix-up
		for _, o := range all {
			if o.isDone() && o.Kind == KCall && o.Rec != nil && o.Rec.Err == nil && o.Rec.Reply != nil {
				if d := rig.CheckReply(o.Rec); d != "" {
					out.add("C01", "C01/e2e/wrong-reply", fmt.Sprintf("%s id %s (%s): %s (in a scenario where another call never completed)", o.Form, o.Spec.ID(), p.Cfg, d), nil)
				}
			}
		}
	}
	// residue check before closing (C06)
	if finished {
		for _, c := range conns {
			if c.conn == nil {
				continue
			}
			env.Settle(func() bool { return c.conn.NumCalls() == 0 }, 2*time.Second)
			if n := c.conn.NumCalls(); n != 0 {
				abandoned := false
				for _, ops := range c.ops {
					for _, o := range ops {
						if o.Kind == KCtxCancel {
							abandoned = true
						}
					}
				}
				if !abandoned {
					out.add("C06", "C06/e2e/residue", fmt.Sprintf("NumCalls()=%d on connection %d after every call has completed (%s)", n, c.idx, p.Cfg), nil)
				}
			}
		}
	}
	for _, c := range conns {
		if c.conn != nil {
			c.conn.Close()
		}
	}
	if cl != nil {
		cl.Close()
	} else if tr != nil {
		tr.Close()
	}
	r.Server.Close()
	env.Settle(func() bool { ret, _ := r.ListenReturned(); u, s := r.Ledger.Running(); return ret && u == 0 && s == 0 }, 5*time.Second)
	if p.Teardown && !env.Virtual() {
		// in real time "no handler running" also holds for an instant between
		// two queued requests: wait until nothing has run for a while
		stable, lastN := 0, -1
		env.Settle(func() bool {
			u, s := r.Ledger.Running()
			n := r.Ledger.NumExecs()
			if u == 0 && s == 0 && n == lastN {
				stable++
			} else {
				stable = 0
			}
			lastN = n
			return stable >= 150
		}, 10*time.Second)
	}
	if !finished {
		out.Sig = "unfinished"
		return out
	}
	if p.Teardown {
		judgeTeardown(out, p, r, env)
		return out
	}
	judgeE2E(out, p, r, conns, all, allStreams)
	return out
}

// probeNewConn (real time): a handler is held by the scenario's gate. A call
// on a new connection must complete while the gate is shut. If it has not
// after five seconds, the gate is opened: completing only then shows that it
// was waiting for the other connection's handler - a causal verdict, not a
// timed one.
func probeNewConn(out *Outcome, p E2E, r *rig.Rig, gate *chan struct{}, when string) {
	resc := make(chan error, 1)
	go func() {
		nc, err := r.DialOnce()
		if err != nil {
			resc <- err
			return
		}
		rec := rig.Do(nc, rig.FormCall, p.Cfg.Codec, rig.Method(p.Cfg.Codec, 0), svc.Spec{Run: p.Run, Conn: 900, Caller: 99, Counter: 2, ReplyLen: 10}, 0, nil)
		nc.Close()
		resc <- rec.Err
	}()
	select {
	case err := <-resc:
		if err != nil {
			out.stat("new_connection_probe_errors", 1)
		}
		out.stat("teardown_new_connection_calls", 1)
		close(*gate)
	case <-time.After(5 * time.Second):
		close(*gate)
		select {
		case err := <-resc:
			out.add("C05", "C05/e2e/new-connection-not-independent", fmt.Sprintf("a call on a connection opened while %s did not complete for 5 s, and completed (err %v) as soon as that request's handler was released: connections are not independent (%s)", when, err, p.Cfg), nil)
			out.add("C08", "C08/e2e/other-connections-not-served", fmt.Sprintf("while %s, a call on a newly accepted connection was not served for 5 s and completed (err %v) as soon as that request's handler was released: well-formed traffic on other connections is not served (%s)", when, err, p.Cfg), nil)
		case <-time.After(10 * time.Second):
			out.Inconclusive = "a call on a fresh connection did not complete within 15 s (" + p.Cfg.String() + ")"
		}
	}
	*gate = nil
}

// judgeTeardown judges a scenario whose connections were closed by the client
// in mid-flight: the calls themselves end as they may (C03 judges that
// elsewhere); what the pipelining server did with the requests it had received
// must still be one at a time, in the order sent, and at most once each.
func judgeTeardown(out *Outcome, p E2E, r *rig.Rig, env Env) {
	cfgs := p.Cfg.String() + " teardown"
	if u, s := r.Ledger.Running(); u > 0 || s > 0 {
		out.Inconclusive = fmt.Sprintf("%d handlers still running after the connections and the server were closed (%s)", u+s, cfgs)
		if dir := os.Getenv("VT_WORK"); dir != "" {
			buf := make([]byte, 1<<22)
			buf = buf[:runtime.Stack(buf, true)]
			os.MkdirAll(dir, 0o755)
			os.WriteFile(fmt.Sprintf("%s/teardown-%d.stacks", dir, p.Run), buf, 0o644)
		}
		return
	}
	execs, _, overlaps := r.Ledger.Snapshot()
	if len(overlaps) > 0 {
		out.add("C05", "C05/e2e/teardown-overlap", fmt.Sprintf("pipelining server ran two handlers of one connection at the same time while the connection was going down (%d overlaps, first at id %s) (%s)", len(overlaps), overlaps[0], cfgs), nil)
	}
	last := map[uint32]int64{}
	cnt := map[string]int{}
	for _, e := range execs {
		if !e.Known {
			continue
		}
		cnt[e.ID]++
		if cnt[e.ID] == 2 {
			out.add("C04", "C04/e2e/teardown-executed-twice", fmt.Sprintf("request %s was executed twice while its connection was going down (%s)", e.ID, cfgs), nil)
		}
		if prev, ok := last[e.Spec.Conn]; ok && int64(e.Spec.Counter) < prev {
			out.add("C05", "C05/e2e/teardown-exec-order", fmt.Sprintf("pipelining server executed request %d of connection %d after request %d while the connection was going down (%s)", e.Spec.Counter, e.Spec.Conn, prev, cfgs), nil)
			break
		}
		last[e.Spec.Conn] = int64(e.Spec.Counter)
	}
	out.stat("teardown_scenarios", 1)
	out.stat("teardown_executions", int64(len(execs)))
	out.Sig = cfgs + "/order/" + svc.SumHex([]byte(fmt.Sprint(len(execs), p.Run)))
	out.Nontrivial = len(execs) > 0
}

// runOrdered issues every op of the connection's single caller with Go on one
// shared Done channel and records the arrival order (C05).
func (c *e2eConn) runOrdered(p E2E, r *rig.Rig) {
	ops := c.ops[0]
	done := make(chan *rpc.Call, len(ops)+8)
	codec := p.Cfg.Codec
	byCall := map[*rpc.Call]*Op{}
	boxes := make([]svc.Box, len(ops))
	for i, o := range ops {
		args := svc.Build(o.Spec)
		in := svc.NewBox(codec)
		in.Set(args)
		out := svc.NewBox(codec)
		out.Set(append([]byte(nil), rig.Sentinel...))
		boxes[i] = out
		method := rig.Method(codec, o.Shape)
		var inObj, outObj interface{} = in.Ptr(), out.Ptr()
		switch o.Kind {
		case KNoMethod:
			method = "S.Nope"
		case KUndecodable:
			switch codec {
			case svc.CodecJSON:
				method = "S.JMismatch"
			case svc.CodecPB:
				inObj = &svc.PRaw{B: append([]byte{0xff, 0xff}, args...)}
			case svc.CodecCode:
				inObj = &svc.CRaw{B: append([]byte{0xff, 0xff, 0xff, 0xff, 0xff, 0xff, 0xff, 0xff, 0xff, 0xff, 0x7f}, args...)}
			default:
				o.Kind = KNoMethod
				method = "S.Nope"
			}
		case KBadReply:
			if m := svc.BadReplyMethod(codec); m != "" {
				method = m
				switch codec {
				case svc.CodecJSON:
					outObj = &svc.JBad{}
				case svc.CodecPB:
					outObj = &svc.PBad{}
				case svc.CodecCode:
					outObj = &svc.CBad{}
				}
			} else {
				o.Kind = KNoMethod
				method = "S.Nope"
			}
		case KBadReq:
			switch codec {
			case svc.CodecJSON:
				inObj = &svc.JBad{F: func() {}}
			case svc.CodecPB:
				inObj = &svc.PBad{}
			case svc.CodecCode:
				inObj = &svc.CBad{}
			default:
				o.Kind = KNoMethod
				method = "S.Nope"
			}
		}
		o.Rec = &rig.CallRec{ID: o.Spec.ID(), Form: rig.FormGo, Method: method, Spec: o.Spec, Args: args}
		o.Rec.Start = svc.Stamp()
		o.call = c.caller.Go(method, inObj, outObj, done)
		byCall[o.call] = o
	}
	if p.Teardown && c.conn != nil {
		// close while requests are queued behind an executing one: wait for
		// the first handler to be entered, a little longer, then go
		for i := 0; i < 4000; i++ {
			if u, _ := r.Ledger.Running(); u > 0 {
				break
			}
			time.Sleep(50 * time.Microsecond)
		}
		time.Sleep(time.Duration(rand.New(rand.NewSource(p.Seed+int64(c.idx))).Intn(1500)) * time.Microsecond)
		c.conn.Close()
	}
	for n := 0; n < len(ops); n++ {
		call := <-done
		c.arrived = append(c.arrived, call)
		o := byCall[call]
		if o == nil {
			continue
		}
		if o.Arrival < 0 {
			o.Arrival = n
		}
		o.Rec.End = svc.Stamp()
		o.Rec.Err = call.Error
		if call.Error != nil {
			o.Rec.ErrText = string(append([]byte(nil), call.Error.Error()...))
		}
		atomic.StoreInt32(&o.done, 1)
	}
	for i, o := range ops {
		if o.Rec.Err == nil && o.Kind != KBadReply {
			o.Rec.Reply = boxes[i].Get()
			o.Rec.ReplySum = svc.Sum(o.Rec.Reply)
		} else {
			o.Rec.Sentinel = o.Kind == KBadReply || bytes.Equal(boxes[i].Get(), rig.Sentinel)
		}
	}
}

func judgeE2E(out *Outcome, p E2E, r *rig.Rig, conns []*e2eConn, all []*Op, streams []*StreamPlan) {
	execs, srecs, overlaps := r.Ledger.Snapshot()
	byID := map[string][]svc.Exec{}
	for _, e := range execs {
		byID[e.ID] = append(byID[e.ID], e)
	}
	cfgs := p.Cfg.String()
	failingPresent := false
	kinds := map[string]int{}
	for _, o := range all {
		kinds[o.Kind]++
		if o.Kind != KCall && o.Kind != KPing {
			failingPresent = true
		}
	}
	unexpectedProp := "C12"
	if failingPresent {
		unexpectedProp = "C06"
	}
	// wire views per connection
	views := map[int]*WireView{}
	seqByID := map[string][]uint64{}
	for _, c := range conns {
		if c.pair == nil {
			continue
		}
		v := View(c.pair, p.Cfg.Header, p.Cfg.Codec)
		views[c.idx] = v
		for _, q := range v.Reqs {
			if q.ID != "" && !q.HasUp {
				seqByID[q.ID] = append(seqByID[q.ID], q.Seq)
			}
		}
		out.stat("wire_request_frames", int64(len(v.Reqs)))
		out.stat("wire_response_frames", int64(len(v.Ress)))
		if len(v.ReqErrs) > 0 || len(v.ResErrs) > 0 {
			out.add("C07", "C07/e2e/undecodable-frame", fmt.Sprintf("reference decoder cannot read a frame of the %s conversation: %v %v", cfgs, v.ReqErrs, v.ResErrs), nil)
		}
	}
	resBySeq := func(c int, seq uint64) []WireRes {
		var rs []WireRes
		if v := views[c]; v != nil {
			for _, x := range v.Ress {
				if x.Seq == seq {
					rs = append(rs, x)
				}
			}
		}
		return rs
	}
	okCalls := int64(0)
	for _, o := range all {
		id := o.Spec.ID()
		ex := byID[id]
		rec := o.Rec
		conn := int(o.Spec.Conn)
		wireErr := func() (string, bool) {
			seqs := seqByID[id]
			if len(seqs) != 1 {
				return "", false
			}
			rs := resBySeq(conn, seqs[0])
			if len(rs) != 1 {
				return "", false
			}
			return rs[0].Error, true
		}
		switch o.Kind {
		case KPing:
			if o.PingErr != nil {
				out.add(unexpectedProp, unexpectedProp+"/e2e/ping-failed", fmt.Sprintf("Ping failed with %v on a healthy connection (%s)", o.PingErr, cfgs), nil)
			}
			continue
		case KCall:
			if rec.Err != nil {
				out.add(unexpectedProp, unexpectedProp+"/e2e/unexpected-error", fmt.Sprintf("%s of a well-formed request (id %s) failed with %q although no fault was injected (%s)", o.Form, id, rec.ErrText, cfgs), nil)
				if kinds[KCtxCancel] > 0 {
					out.add("C19", "C19/e2e/sibling-harmed", fmt.Sprintf("%s of a well-formed request (id %s), issued alongside calls abandoned by their contexts, failed with %q (%s, via %s)", o.Form, id, rec.ErrText, cfgs, p.Via), nil)
				}
				continue
			}
			okCalls++
			if d := rig.CheckReply(rec); d != "" {
				out.add("C01", "C01/e2e/wrong-reply", fmt.Sprintf("%s id %s (%s): %s", o.Form, id, cfgs, d), map[string]interface{}{"form": o.Form, "args_len": len(rec.Args), "reply_len": len(rec.Reply)})
				if failingPresent {
					out.add("C06", "C06/e2e/neighbour-wrong-reply", fmt.Sprintf("a well-formed %s (id %s) in flight together with failing calls got a reply that is not f(own args): %s (%s)", o.Form, id, d, cfgs), nil)
				}
			}
			if len(ex) != 1 {
				out.add("C04", "C04/e2e/exec-count", fmt.Sprintf("successful call %s was executed %d times (%s)", id, len(ex), cfgs), nil)
			} else if ex[0].ArgSum != svc.Sum(rec.Args) {
				out.add("C01", "C01/e2e/handler-args", fmt.Sprintf("handler of call %s saw arguments different from what the caller sent (%s)", id, cfgs), nil)
			}
			if o.Form == rig.FormCtxBuf {
				enc := rig.EncodedLen(p.Cfg.Codec, rec.Reply)
				want := enc > 0 && cap(rec.Buf) >= enc
				// (an empty decoded reply has no address to tell where it lives)
				if want != rec.BufUsed && svc.Aliasing(p.Cfg.Codec) && len(rec.Reply) > 0 {
					out.add("C19", "C19/e2e/buffer-use", fmt.Sprintf("context buffer cap %d, encoded reply %d bytes: reply placed in the buffer=%v, expected %v (%s)", cap(rec.Buf), enc, rec.BufUsed, want, cfgs), nil)
				}
				// "safely ignored when not [large enough]": a reply that did not
				// go into the buffer is the caller's like any other reply
				if !rec.BufUsed && len(rec.Reply) > 0 && svc.Sum(rec.Reply) != rec.ReplySum {
					out.add("C19", "C19/e2e/small-buffer-reply-changed", fmt.Sprintf("CallWithContext %s with a context buffer (cap %d) too small for the reply (%d bytes encoded) returned the right reply, which changed afterwards (%s)", id, cap(rec.Buf), enc, cfgs), nil)
				}
				if ok, at := rec.CanaryIntact(enc); !ok {
					out.add("C11", "C11/e2e/canary", fmt.Sprintf("byte %d of the caller-supplied buffer (cap %d) was overwritten; the encoded reply has %d bytes (%s)", at, cap(rec.Buf), enc, cfgs), nil)
				}
			}
		case KFail, KNoMethod, KUndecodable, KBadReply:
			if rec.Err == nil {
				out.add("C06", "C06/e2e/no-error/"+o.Kind, fmt.Sprintf("%s call %s returned nil (%s)", o.Kind, id, cfgs), nil)
				continue
			}
			if !rec.Sentinel {
				out.add("C06", "C06/e2e/reply-touched", fmt.Sprintf("reply object of failed %s call %s was modified (%s)", o.Kind, id, cfgs), nil)
			}
			want := ""
			if o.Kind == KFail {
				want = svc.ErrText(rec.Args)
			} else if w, ok := wireErr(); ok {
				want = w
			}
			if want != "" && rec.ErrText != want {
				out.add("C06", "C06/e2e/error-text/"+o.Kind, fmt.Sprintf("%s call %s (%s): error text at return differs from the server's text: got %d bytes %.60q, server sent %d bytes %.60q (%s)",
					o.Kind, id, o.Form, len(rec.ErrText), rec.ErrText, len(want), want, cfgs), nil)
			}
			if now := rec.Err.Error(); now != rec.ErrText {
				out.add("C06", "C06/e2e/error-text-changed", fmt.Sprintf("%s call %s: error text changed after return: was %.50q, now %.50q (%s)", o.Kind, id, rec.ErrText, now, cfgs), nil)
			}
			wantExec := 1
			if o.Kind == KNoMethod || o.Kind == KUndecodable {
				wantExec = 0
			}
			if len(ex) != wantExec {
				out.add("C04", "C04/e2e/exec-count/"+o.Kind, fmt.Sprintf("%s call %s was executed %d times, expected %d (%s)", o.Kind, id, len(ex), wantExec, cfgs), nil)
			}
		case KBadReq:
			if rec.Err == nil {
				out.add("C06", "C06/e2e/no-error/badreq", fmt.Sprintf("call %s with an unencodable request returned nil (%s)", id, cfgs), nil)
			}
			if len(ex) != 0 {
				out.add("C04", "C04/e2e/exec-count/badreq", fmt.Sprintf("call %s whose request could not be encoded was executed %d times (%s)", id, len(ex), cfgs), nil)
			}
		case KCtxCancel:
			if rec.Err == nil {
				// the reply won the race; must then be right
				if d := rig.CheckReply(rec); d != "" {
					out.add("C01", "C01/e2e/wrong-reply", fmt.Sprintf("ctx call %s: %s (%s)", id, d, cfgs), nil)
				}
			} else if rec.Err != context.DeadlineExceeded {
				out.add("C19", "C19/e2e/wrong-error", fmt.Sprintf("CallWithContext %s whose deadline (%v) precedes the reply (handler delay %dus) returned %q instead of the context's error (%s)", id, o.Timeout, o.Spec.DelayUs, rec.ErrText, cfgs), nil)
			} else if p.virtual && (o.Elapsed < o.Timeout || o.Elapsed > o.Timeout+time.Duration(p.HookDelayUs)*time.Microsecond) {
				// (the H1 hook, when installed, sleeps up to HookDelayUs inside the Transport before the call proper)
				out.add("C19", "C19/e2e/late-return", fmt.Sprintf("CallWithContext %s returned %v after the call although its context was done after %v (virtual time) (%s)", id, o.Elapsed, o.Timeout, cfgs), nil)
			}
			if len(ex) > 1 {
				out.add("C04", "C04/e2e/exec-count/ctx", fmt.Sprintf("abandoned call %s was executed %d times (%s)", id, len(ex), cfgs), nil)
			}
		}
	}
	// exactly-once as seen by the asynchronous forms: no late second signal, Error unchanged (C02)
	for _, o := range all {
		if o.Rec == nil {
			continue
		}
		if extra, changed := o.Rec.LateSignals(); extra > 0 || changed {
			out.add("C02", "C02/e2e/late-signal", fmt.Sprintf("%s %s (id %s) was signalled %d more times after it had completed (Error changed afterwards: %v) (%s)", o.Form, o.Kind, o.Spec.ID(), extra, changed, cfgs), nil)
		}
	}
	out.stat("calls_ok", okCalls)
	for k, n := range kinds {
		out.stat("ops_"+k, int64(n))
	}
	// no execution for a request nobody sent; none twice
	sent := map[string]bool{}
	for _, o := range all {
		sent[o.Spec.ID()] = true
	}
	for _, e := range execs {
		if !e.Known {
			if e.Method != "JMismatch" {
				out.add("C04", "C04/e2e/foreign-exec", fmt.Sprintf("handler %s ran with arguments that are not a harness payload (%d bytes) (%s)", e.Method, e.ArgLen, cfgs), nil)
			}
			continue
		}
		if !sent[e.ID] && e.Spec.Run != 0xfffffff && !(e.Spec.Conn == 900 && e.Spec.Caller == 99) { // the harness's own warm-up and new-connection probe calls
			out.add("C04", "C04/e2e/unsent-exec", fmt.Sprintf("handler %s ran for id %s which no caller of this scenario sent (%s)", e.Method, e.ID, cfgs), nil)
		}
	}
	out.stat("handler_execs", int64(len(execs)))
	// wire: exactly one response per unary request (C04), order under pipelining (C05)
	for _, c := range conns {
		v := views[c.idx]
		if v == nil {
			continue
		}
		streamSeqs := v.StreamSeqs()
		count := map[uint64]int{}
		for _, x := range v.Ress {
			count[x.Seq]++
		}
		var reqOrder, resOrder []uint64
		isUnary := map[uint64]bool{}
		abandonedIDs := map[string]bool{}
		for _, ops := range c.ops {
			for _, o := range ops {
				if o.Kind == KCtxCancel {
					abandonedIDs[o.Spec.ID()] = true
				}
			}
		}
		for _, q := range v.Reqs {
			if streamSeqs[q.Seq] {
				continue
			}
			isUnary[q.Seq] = true
			reqOrder = append(reqOrder, q.Seq)
			if count[q.Seq] != 1 && !abandonedIDs[q.ID] {
				out.add("C04", "C04/e2e/response-count", fmt.Sprintf("request seq %d (id %q) on connection %d got %d responses on the wire (%s)", q.Seq, q.ID, c.idx, count[q.Seq], cfgs), nil)
			}
		}
		for _, x := range v.Ress {
			if isUnary[x.Seq] {
				resOrder = append(resOrder, x.Seq)
			} else if !streamSeqs[x.Seq] {
				out.add("C04", "C04/e2e/unsolicited-response", fmt.Sprintf("response with seq %d on connection %d matches no request (%s)", x.Seq, c.idx, cfgs), nil)
			}
		}
		if p.Cfg.SrvPipelining && p.Profile == "order" {
			if !equalU64(reqOrder, resOrder) && len(reqOrder) == len(resOrder) {
				out.add("C05", "C05/e2e/wire-order", fmt.Sprintf("pipelining server wrote responses out of request order on connection %d: first difference at position %d (%s)", c.idx, firstDiff(reqOrder, resOrder), cfgs), nil)
			}
		}
	}
	if p.Profile == "order" {
		judgeOrder(out, p, conns, execs, overlaps)
	}
	judgeStreams(out, p, conns, srecs)
	if p.Profile == "retain" {
		judgeRetention(out, p, all, streams, execs, srecs)
	}
	// signature: configuration + completion-order permutation
	var perm []string
	for _, e := range execs {
		perm = append(perm, e.ID)
	}
	h := svc.SumHex([]byte(fmt.Sprint(perm)))
	out.Sig = cfgs + "/" + p.Profile + "/" + h
	out.Nontrivial = len(all) > 1 || len(streams) > 0
	maxOut := int64(0)
	// max outstanding per scenario from stamps
	type ev struct {
		t int64
		d int
	}
	var evs []ev
	for _, o := range all {
		if o.Rec != nil && o.Rec.End > 0 {
			evs = append(evs, ev{o.Rec.Start, 1}, ev{o.Rec.End, -1})
		}
	}
	sort.Slice(evs, func(i, j int) bool { return evs[i].t < evs[j].t })
	cur := int64(0)
	for _, e := range evs {
		cur += int64(e.d)
		if cur > maxOut {
			maxOut = cur
		}
	}
	out.statMax("max_outstanding", maxOut)
	// out-of-order server completions observed (evidence that reordering happens)
	inv := int64(0)
	last := map[uint32]uint64{}
	for _, e := range execs {
		if !e.Known {
			continue
		}
		key := e.Spec.Conn<<8 | e.Spec.Caller
		if e.Spec.Counter < last[key] {
			inv++
		}
		last[key] = e.Spec.Counter
	}
	out.stat("server_exec_inversions", inv)
	// completions that overtook an earlier-started execution of the same connection
	byExit := append([]svc.Exec(nil), execs...)
	sort.Slice(byExit, func(i, j int) bool { return byExit[i].Exit < byExit[j].Exit })
	overt := int64(0)
	maxEnter := map[uint32]int64{}
	for _, e := range byExit {
		if !e.Known || e.Exit == 0 {
			continue
		}
		if e.Enter < maxEnter[e.Spec.Conn] {
			overt++
		}
		if e.Enter > maxEnter[e.Spec.Conn] {
			maxEnter[e.Spec.Conn] = e.Enter
		}
	}
	out.stat("server_completions_out_of_start_order", overt)
}

func equalU64(a, b []uint64) bool {
	if len(a) != len(b) {
		return false
	}
	for i := range a {
		if a[i] != b[i] {
			return false
		}
	}
	return true
}

func firstDiff(a, b []uint64) int {
	for i := range a {
		if i >= len(b) || a[i] != b[i] {
			return i
		}
	}
	return len(a)
}

func judgeOrder(out *Outcome, p E2E, conns []*e2eConn, execs []svc.Exec, overlaps []string) {
	cfgs := p.Cfg.String()
	if p.Cfg.SrvPipelining {
		if len(overlaps) > 0 {
			out.add("C05", "C05/e2e/overlap", fmt.Sprintf("pipelining server ran two handlers of one connection at the same time (%d overlaps, first at id %s) (%s)", len(overlaps), overlaps[0], cfgs), nil)
		}
		lastCounter := map[uint32]int64{}
		for _, e := range execs {
			if !e.Known {
				continue
			}
			if prev, ok := lastCounter[e.Spec.Conn]; ok && int64(e.Spec.Counter) < prev {
				out.add("C05", "C05/e2e/exec-order", fmt.Sprintf("pipelining server executed request %d of connection %d after request %d (%s)", e.Spec.Counter, e.Spec.Conn, prev, cfgs), nil)
				break
			}
			lastCounter[e.Spec.Conn] = int64(e.Spec.Counter)
		}
	}
	if p.Cfg.SrvPipelining && p.Cfg.CliPipelining {
		for _, c := range conns {
			// completions driven by server responses must arrive in issue order
			lastIdx := -1
			local := int64(0)
			for i, o := range c.ops[0] {
				if o.Kind == KBadReq {
					local++
					continue
				}
				if o.Arrival < 0 {
					continue
				}
				_ = i
			}
			type pr struct{ issue, arrival int }
			var prs []pr
			for i, o := range c.ops[0] {
				if o.Kind != KBadReq && o.Arrival >= 0 {
					prs = append(prs, pr{i, o.Arrival})
				}
			}
			bad := 0
			firstBad := -1
			for _, x := range prs {
				if x.arrival < lastIdx {
					bad++
					if firstBad < 0 {
						firstBad = x.issue
					}
				} else {
					lastIdx = x.arrival
				}
			}
			out.stat("local_failures", local)
			if bad > 0 {
				o := c.ops[0][firstBad]
				out.add("C05", "C05/e2e/arrival-order", fmt.Sprintf("client+server pipelining: %d of %d completions arrived on the shared Done channel out of issue order on connection %d; first: issue #%d (%s) (%s)",
					bad, len(prs), c.idx, firstBad, o.Kind, cfgs), map[string]interface{}{"first_kind": o.Kind})
			}
		}
	}
	// every call arrives exactly once on the shared channel
	for _, c := range conns {
		seen := map[*rpc.Call]int{}
		for _, call := range c.arrived {
			seen[call]++
		}
		for call, n := range seen {
			if n > 1 {
				out.add("C02", "C02/e2e/double-completion", fmt.Sprintf("a call (%s) arrived %d times on its Done channel (%s)", call.ServiceMethod, n, cfgs), nil)
			}
		}
	}
}

func judgeStreams(out *Outcome, p E2E, conns []*e2eConn, srecs []svc.StreamRec) {
	cfgs := p.Cfg.String()
	recByStream := map[uint64]*svc.StreamRec{}
	for i := range srecs {
		sr := &srecs[i]
		for _, m := range sr.Reads {
			if m.Info.Stream != 0 {
				if other, ok := recByStream[m.Info.Stream]; ok && other != sr {
					out.add("C09", "C09/e2e/cross-stream", fmt.Sprintf("messages of client stream %d were delivered to two different server-side streams (%s)", m.Info.Stream, cfgs), nil)
				}
				recByStream[m.Info.Stream] = sr
			}
		}
	}
	serialSeen := map[uint64]uint64{}
	nStreams, nMsgs := int64(0), int64(0)
	for _, c := range conns {
		for _, sp := range c.streams {
			nStreams++
			if sp.OpenErr != nil {
				out.add("C09", "C09/e2e/open-failed", fmt.Sprintf("NewStream failed on a healthy connection: %v (%s)", sp.OpenErr, cfgs), nil)
				continue
			}
			if sp.Problem != "" {
				out.add("C09", "C09/e2e/stream-op-failed", fmt.Sprintf("stream %d: %s (%s)", sp.ID, sp.Problem, cfgs), nil)
				continue
			}
			// expected client read sequence
			var expDown []StreamStep
			for _, s := range sp.Steps {
				expDown = append(expDown, s)
			}
			ri := 0
			bad := ""
			var serial uint64
			wf := 0
			// with WriteFirst, pushes still precede every answer (the handler pushes before it reads)
			_ = wf
			for i := 0; i < sp.Push && bad == ""; i++ {
				if ri >= len(sp.Reads) {
					bad = "missing push"
					break
				}
				m := sp.Reads[ri]
				ri++
				switch {
				case !m.Info.OK || m.Info.Dir != svc.DirPush:
					bad = fmt.Sprintf("read %d should be push %d but is dir=%q stream=%d index=%d ok=%v", ri-1, i, m.Info.Dir, m.Info.Stream, m.Info.Index, m.Info.OK)
				case m.Info.Index != uint32(i):
					bad = fmt.Sprintf("push %d arrived with index %d", i, m.Info.Index)
				case i == 0:
					serial = m.Info.Stream
				case m.Info.Stream != serial:
					bad = fmt.Sprintf("push %d belongs to server stream %d, the first push to %d", i, m.Info.Stream&^svc.PushBit, serial&^svc.PushBit)
				}
				if bad == "" && m.Len != svc.DownSize(m.Info.Stream&^svc.PushBit, m.Info.Index) {
					bad = fmt.Sprintf("push %d has %d bytes, expected %d", i, m.Len, svc.DownSize(m.Info.Stream&^svc.PushBit, m.Info.Index))
				}
			}
			if bad == "" && sp.Push > 0 {
				if other, ok := serialSeen[serial]; ok {
					bad = fmt.Sprintf("pushes of server stream %d were delivered to client streams %d and %d", serial&^svc.PushBit, other, sp.ID)
				}
				serialSeen[serial] = sp.ID
			}
			down := uint32(0)
			for _, s := range expDown {
				n := 0
				switch s.Kind {
				case svc.KindEcho:
					n = 1
				case svc.KindBurst:
					n = int(s.N)
				}
				for k := 0; k < n && bad == ""; k++ {
					if ri >= len(sp.Reads) {
						bad = "missing answer"
						break
					}
					m := sp.Reads[ri]
					ri++
					if !m.Info.OK || m.Info.Dir != svc.DirDown || m.Info.Stream != sp.ID || m.Info.Index != down {
						bad = fmt.Sprintf("read %d should be answer %d of stream %d but is dir=%q stream=%d index=%d ok=%v", ri-1, down, sp.ID, m.Info.Dir, m.Info.Stream, m.Info.Index, m.Info.OK)
					} else if m.Len != svc.DownSize(sp.ID, down) {
						bad = fmt.Sprintf("answer %d has %d bytes, expected %d", down, m.Len, svc.DownSize(sp.ID, down))
					}
					down++
				}
			}
			if bad == "" && ri != len(sp.Reads) {
				bad = fmt.Sprintf("%d extra messages read", len(sp.Reads)-ri)
			}
			if bad != "" {
				out.add("C09", "C09/e2e/client-sequence", fmt.Sprintf("client stream %d (push=%d writeFirst=%v): %s (%s)", sp.ID, sp.Push, sp.WriteFirst, bad, cfgs), nil)
			}
			nMsgs += int64(len(sp.Reads))
			if sp.CanaryHit != "" {
				out.add("C11", "C11/e2e/stream-buffer-canary", fmt.Sprintf("stream %d: %s (%s)", sp.ID, sp.CanaryHit, cfgs), nil)
			}
			// server side
			if len(sp.Steps) > 0 {
				sr := recByStream[sp.ID]
				if sr == nil {
					out.add("C09", "C09/e2e/server-saw-nothing", fmt.Sprintf("no server-side stream received the %d messages of client stream %d (%s)", len(sp.Steps), sp.ID, cfgs), nil)
					continue
				}
				sbad := ""
				if len(sr.Reads) != len(sp.Steps) {
					sbad = fmt.Sprintf("server read %d messages, client wrote %d", len(sr.Reads), len(sp.Steps))
				}
				for i, m := range sr.Reads {
					if sbad != "" {
						break
					}
					if sp.Steps[i].Kind == svc.KindEmpty {
						if m.Len != 0 {
							sbad = fmt.Sprintf("server read %d should be the empty message the client wrote but has %d bytes (stream=%d index=%d ok=%v)", i, m.Len, m.Info.Stream, m.Info.Index, m.Info.OK)
						}
						continue
					}
					if !m.Info.OK || m.Info.Stream != sp.ID || m.Info.Dir != svc.DirUp || m.Info.Index != uint32(i) || m.Len != max(sp.Steps[i].Size, svc.StreamHdr) {
						sbad = fmt.Sprintf("server read %d is stream=%d dir=%q index=%d len=%d ok=%v", i, m.Info.Stream, m.Info.Dir, m.Info.Index, m.Len, m.Info.OK)
					}
				}
				if sbad != "" {
					out.add("C09", "C09/e2e/server-sequence", fmt.Sprintf("client stream %d: %s (%s)", sp.ID, sbad, cfgs), nil)
				}
				nMsgs += int64(len(sr.Reads))
			}
		}
	}
	out.stat("streams", nStreams)
	out.stat("stream_messages", nMsgs)
}

func judgeRetention(out *Outcome, p E2E, all []*Op, streams []*StreamPlan, execs []svc.Exec, srecs []svc.StreamRec) {
	cfgs := p.Cfg.String()
	kept := int64(0)
	for _, e := range execs {
		if e.Kept == nil {
			continue
		}
		kept++
		if svc.Sum(e.Kept) != e.ArgSum {
			out.add("C11", "C11/e2e/handler-args-mutated", fmt.Sprintf("argument bytes (%d) retained by handler %s for id %s changed after the handler returned (%s)", len(e.Kept), e.Method, e.ID, cfgs), nil)
		}
	}
	for _, o := range all {
		if o.Rec == nil || o.Rec.Reply == nil || o.Rec.Err != nil {
			continue
		}
		kept++
		if svc.Sum(o.Rec.Reply) != o.Rec.ReplySum {
			out.add("C11", "C11/e2e/reply-mutated", fmt.Sprintf("reply bytes (%d, form %s, buffer used=%v) of call %s changed after the call returned (%s)", len(o.Rec.Reply), o.Form, o.Rec.BufUsed, o.Spec.ID(), cfgs), nil)
		}
	}
	for _, sp := range streams {
		for i, b := range sp.readKept {
			kept++
			if i < len(sp.Reads) && svc.Sum(b) != sp.Reads[i].Sum {
				out.add("C11", "C11/e2e/stream-message-mutated/client", fmt.Sprintf("message %d (%d bytes) read from client stream %d changed afterwards (%s)", i, len(b), sp.ID, cfgs), nil)
			}
		}
	}
	for _, sr := range srecs {
		for i, m := range sr.Reads {
			if m.Kept == nil {
				continue
			}
			kept++
			if svc.Sum(m.Kept) != m.Sum {
				out.add("C11", "C11/e2e/stream-message-mutated/server", fmt.Sprintf("message %d (%d bytes) read by server stream %d changed afterwards (%s)", i, m.Len, sr.Serial, cfgs), nil)
			}
		}
	}
	out.stat("retained_objects", kept)
}
