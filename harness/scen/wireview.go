// Package scen holds the scenarios and oracles shared by the virtual-time and
// real-time substrates.
package scen

import (
	"fmt"

	"verif/harness/memnet"
	"verif/harness/svc"
	"verif/harness/wire"
)

// WireReq is one request frame seen on the wire (monitor M3).
type WireReq struct {
	Seq     uint64
	Flags   wire.Flags
	HasUp   bool
	Method  string
	ID      string // payload id, "" if the body carries none
	ArgsSum [32]byte
	ArgsLen int
	End     int // offset of the end of the frame in the c2s stream
}

// WireRes is one response frame seen on the wire.
type WireRes struct {
	Seq      uint64
	Error    string
	ReplyLen int
	ReplySum [32]byte
	End      int
}

// WireView is the decoded conversation of one connection.
type WireView struct {
	Reqs     []WireReq
	Ress     []WireRes
	ReqErrs  []string
	ResErrs  []string
	C2S, S2C int // bytes written
	C2SRest  int // trailing bytes not forming a complete frame
	S2CRest  int
}

// View decodes the tapped byte streams of p with the reference decoders.
func View(p *memnet.Pair, hdr, codec string) *WireView {
	v := &WireView{}
	c2s := p.TapCopy(memnet.C2S)
	s2c := p.TapCopy(memnet.S2C)
	v.C2S, v.S2C = len(c2s), len(s2c)
	frames, used := wire.SplitFrames(c2s)
	v.C2SRest = len(c2s) - used
	for _, f := range frames {
		r, err := wire.DecodeReq(hdr, f.Payload, false)
		if err != nil {
			v.ReqErrs = append(v.ReqErrs, fmt.Sprintf("frame ending at %d: %v", f.End, err))
			continue
		}
		wr := WireReq{Seq: r.Seq, Method: r.Method, ArgsLen: len(r.Args), End: f.End}
		if len(r.Upgrade) > 0 {
			wr.HasUp = true
			wr.Flags = wire.ParseFlags(r.Upgrade[0])
		}
		if pl, ok := svc.ExtractPayload(codec, r.Args); ok {
			sp, _ := svc.Parse(pl)
			wr.ID = sp.ID()
			wr.ArgsSum = svc.Sum(pl)
		}
		v.Reqs = append(v.Reqs, wr)
	}
	frames, used = wire.SplitFrames(s2c)
	v.S2CRest = len(s2c) - used
	for _, f := range frames {
		r, err := wire.DecodeRes(hdr, f.Payload, false)
		if err != nil {
			v.ResErrs = append(v.ResErrs, fmt.Sprintf("frame ending at %d: %v", f.End, err))
			continue
		}
		v.Ress = append(v.Ress, WireRes{Seq: r.Seq, Error: r.Error, ReplyLen: len(r.Reply), ReplySum: svc.Sum(r.Reply), End: f.End})
	}
	return v
}

// StreamSeqs returns the set of sequence numbers used by streams (the seq of
// every open-stream request).
func (v *WireView) StreamSeqs() map[uint64]bool {
	m := map[uint64]bool{}
	for _, r := range v.Reqs {
		if r.HasUp && r.Flags.Stream != 0 {
			m[r.Seq] = true
		}
	}
	return m
}
