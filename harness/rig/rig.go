// Package rig assembles a monitored system: an rpc.Server with the svc
// handlers on some network (memnet or a real one) and client connections in
// the requested modes, plus the call ledger (monitor M1).
package rig

import (
	"bytes"
	"context"
	"errors"
	"fmt"
	"sync"
	"time"
	"unsafe"

	"github.com/hslam/rpc"
	"verif/harness/memnet"
	"verif/harness/svc"
)

// Config selects modes.
type Config struct {
	Network       string `json:"net"` // "mem" or a registered rpc network
	Header        string `json:"hdr"`
	Codec         string `json:"codec"`
	SrvPipelining bool   `json:"sp,omitempty"`
	SrvDirect     bool   `json:"sd,omitempty"`
	SrvNoCopy     bool   `json:"snc,omitempty"`
	SrvShared     bool   `json:"ssh,omitempty"`
	SrvPoll       bool   `json:"poll,omitempty"`
	SrvBuf        int    `json:"sbuf,omitempty"`
	CliPipelining bool   `json:"cp,omitempty"`
	CliDirect     bool   `json:"cd,omitempty"`
	CliBuf        int    `json:"cbuf,omitempty"`
	Frag          int    `json:"frag,omitempty"`
	TLS           bool   `json:"tls,omitempty"`
	How           string `json:"how,omitempty"` // "" = Options with constructors; "optnames"; "both" (names + conflicting constructors); "names" (Listen/Dial)
	Tap           bool   `json:"-"`
	Retain        bool   `json:"-"`
	Pushes        []int  `json:"-"`
}

func (c Config) String() string {
	s := fmt.Sprintf("%s/%s/%s", c.Network, c.Header, c.Codec)
	f := func(b bool, n string) {
		if b {
			s += "+" + n
		}
	}
	f(c.SrvPipelining, "sp")
	f(c.SrvDirect, "sd")
	f(c.SrvNoCopy, "snc")
	f(c.SrvShared, "ssh")
	f(c.SrvPoll, "poll")
	f(c.CliPipelining, "cp")
	f(c.CliDirect, "cd")
	f(c.TLS, "tls")
	if c.How != "" {
		s += "+how=" + c.How
	}
	if c.SrvBuf > 0 {
		s += fmt.Sprintf("+sbuf%d", c.SrvBuf)
	}
	if c.CliBuf > 0 {
		s += fmt.Sprintf("+cbuf%d", c.CliBuf)
	}
	if c.Frag > 0 {
		s += fmt.Sprintf("+frag%d", c.Frag)
	}
	return s
}

// Rig is a running server plus the means to connect to it.
type Rig struct {
	Cfg    Config
	Net    *memnet.Net
	Server *rpc.Server
	Ledger *svc.Ledger
	Addr   string
	mu     sync.Mutex
	lisErr error
	lisRet bool
}

// Options returns the client-side rpc.Options.
func (r *Rig) Options() *rpc.Options { return r.options(false) }

// codecName returns the registry name of the body codec ("bytes" is
// registered by the harness).
func codecName(c string) string { return c }

func otherCodec(c string) func() rpc.Codec {
	if c == svc.CodecJSON {
		return svc.NewCodec(svc.CodecPB)
	}
	return svc.NewCodec(svc.CodecJSON)
}

func otherEncoder(h string) func() rpc.Encoder {
	if h == "json" {
		return svc.NewEncoder("pb")
	}
	return svc.NewEncoder("json")
}

func (r *Rig) options(server bool) *rpc.Options {
	o := &rpc.Options{ClientBufferSize: r.Cfg.CliBuf}
	if r.Cfg.TLS {
		if server {
			o.TLSConfig = rpc.DefalutServerTLSConfig()
		} else {
			o.TLSConfig = rpc.SkipVerifyTLSConfig()
		}
	}
	mem := r.Cfg.Network == "mem" || r.Cfg.Network == ""
	hdrName := r.Cfg.Header
	if hdrName == "default" {
		hdrName = ""
	}
	switch r.Cfg.How {
	case "optnames":
		o.Network = r.Cfg.Network
		o.Codec = codecName(r.Cfg.Codec)
		o.HeaderEncoder = hdrName
	case "both":
		// names select; the constructors name something else and must lose
		o.Network = r.Cfg.Network
		o.NewSocket = rpc.NewSocket("inproc")
		o.Codec = codecName(r.Cfg.Codec)
		o.NewCodec = otherCodec(r.Cfg.Codec)
		o.HeaderEncoder = hdrName
		if hdrName != "" {
			o.NewHeaderEncoder = otherEncoder(hdrName)
		}
	default:
		o.NewCodec = svc.NewCodec(r.Cfg.Codec)
		o.NewHeaderEncoder = svc.NewEncoder(r.Cfg.Header)
		if mem {
			o.NewSocket = r.Net.NewSocket
		} else {
			o.NewSocket = rpc.NewSocket(r.Cfg.Network)
		}
	}
	return o
}

func init() {
	rpc.RegisterCodec(svc.CodecBytes, func() rpc.Codec { return &rpc.BYTESCodec{} })
}

// NewServer builds a server in the configured modes with the handlers registered.
func NewServer(cfg Config, l *svc.Ledger) *rpc.Server {
	s := rpc.NewServer()
	s.SetLogLevel(rpc.OffLogLevel)
	if cfg.SrvBuf > 0 {
		s.SetBufferSize(cfg.SrvBuf)
	}
	s.SetPipelining(cfg.SrvPipelining)
	s.SetDirectIO(cfg.SrvDirect)
	s.SetNoCopy(cfg.SrvNoCopy)
	s.SetContextBuffer(cfg.SrvShared)
	s.SetPoll(cfg.SrvPoll)
	pushes := cfg.Pushes
	if pushes == nil {
		pushes = []int{0}
	}
	svc.Register(s, l, pushes...)
	return s
}

// Start starts a server for cfg on addr. With Network "mem" a fresh memnet
// is created unless n is non-nil.
func Start(cfg Config, n *memnet.Net, addr string, seed int64) *Rig {
	r := &Rig{Cfg: cfg, Net: n, Addr: addr}
	if (cfg.Network == "mem" || cfg.Network == "") && r.Net == nil {
		r.Net = memnet.New(seed)
		r.Net.FragMax = cfg.Frag
		r.Net.Tap = cfg.Tap
	}
	r.Ledger = svc.NewLedger()
	r.Ledger.Retain = cfg.Retain
	r.Server = NewServer(cfg, r.Ledger)
	go func() {
		var err error
		switch {
		case cfg.How == "names" && cfg.TLS:
			err = r.Server.ListenTLS(cfg.Network, addr, codecName(cfg.Codec), rpc.DefalutServerTLSConfig())
		case cfg.How == "names":
			err = r.Server.Listen(cfg.Network, addr, codecName(cfg.Codec))
		default:
			err = r.Server.ListenWithOptions(addr, r.options(true))
		}
		r.mu.Lock()
		r.lisErr, r.lisRet = err, true
		r.mu.Unlock()
	}()
	return r
}

// ListenReturned reports whether ListenWithOptions has returned.
func (r *Rig) ListenReturned() (bool, error) {
	r.mu.Lock()
	defer r.mu.Unlock()
	return r.lisRet, r.lisErr
}

// Dial connects a client in the configured modes, retrying until the
// listener is up (at most ~2 s of whatever clock is in force).
func (r *Rig) Dial() (*rpc.Conn, error) {
	var conn *rpc.Conn
	var err error
	for i := 0; i < 2000; i++ {
		conn, err = r.DialOnce()
		if err == nil {
			break
		}
		time.Sleep(time.Millisecond)
	}
	if err != nil {
		return nil, err
	}
	SetClientModes(conn, r.Cfg)
	return conn, nil
}

// DialOnce makes one connection attempt in the configured style (modes not applied).
func (r *Rig) DialOnce() (*rpc.Conn, error) {
	switch {
	case r.Cfg.How == "names" && r.Cfg.TLS:
		return rpc.DialTLS(r.Cfg.Network, r.Addr, codecName(r.Cfg.Codec), rpc.SkipVerifyTLSConfig())
	case r.Cfg.How == "names":
		return rpc.Dial(r.Cfg.Network, r.Addr, codecName(r.Cfg.Codec))
	}
	return rpc.DialWithOptions(r.Addr, r.Options())
}

// SetClientModes applies the client-side modes of cfg to conn.
func SetClientModes(conn *rpc.Conn, cfg Config) {
	// cfg.CliBuf is applied through Options.ClientBufferSize only:
	// Conn.SetBufferSize blocks on the reader's lock until the next message
	// arrives once the reader goroutine sits in ReadMessage.
	if cfg.CliPipelining {
		conn.SetPipelining(true)
	}
	if cfg.CliDirect {
		conn.SetDirectIO(true)
	}
}

// Caller is what Conn, Client and the Transport adapter have in common.
type Caller interface {
	Call(method string, args interface{}, reply interface{}) error
	Go(method string, args interface{}, reply interface{}, done chan *rpc.Call) *rpc.Call
	RoundTrip(call *rpc.Call) *rpc.Call
	CallWithContext(ctx context.Context, method string, args interface{}, reply interface{}) error
	Ping() error
	NewStream(method string) (rpc.Stream, error)
}

// TransportCaller binds a RoundTripper to one address.
type TransportCaller struct {
	T    rpc.RoundTripper
	Addr string
}

// Call implements Caller.
func (t TransportCaller) Call(m string, a interface{}, r interface{}) error {
	return t.T.Call(t.Addr, m, a, r)
}

// Go implements Caller.
func (t TransportCaller) Go(m string, a interface{}, r interface{}, d chan *rpc.Call) *rpc.Call {
	return t.T.Go(t.Addr, m, a, r, d)
}

// RoundTrip implements Caller.
func (t TransportCaller) RoundTrip(c *rpc.Call) *rpc.Call { return t.T.RoundTrip(t.Addr, c) }

// CallWithContext implements Caller.
func (t TransportCaller) CallWithContext(ctx context.Context, m string, a interface{}, r interface{}) error {
	return t.T.CallWithContext(ctx, t.Addr, m, a, r)
}

// Ping implements Caller.
func (t TransportCaller) Ping() error { return t.T.Ping(t.Addr) }

// NewStream implements Caller.
func (t TransportCaller) NewStream(m string) (rpc.Stream, error) { return t.T.NewStream(t.Addr, m) }

// Call forms.
const (
	FormCall      = "Call"
	FormGo        = "Go"
	FormRoundTrip = "RoundTrip"
	FormCtx       = "CallWithContext"
	FormCtxBuf    = "CallWithContext+buf"
)

// Forms lists the unary call forms.
var Forms = []string{FormCall, FormGo, FormRoundTrip, FormCtx, FormCtxBuf}

// CallRec is one entry of the call ledger (monitor M1).
type CallRec struct {
	ID       string
	Form     string
	Method   string
	Spec     svc.Spec
	Args     []byte // the payload sent
	Start    int64
	End      int64
	StartT   time.Time
	EndT     time.Time
	Err      error
	ErrText  string
	Reply    []byte // the slice handed back, kept as is
	ReplySum [32]byte
	BufUsed  bool   // the reply aliases the caller-supplied context buffer
	BufEnd   int    // offset in Buf of the end of the reply when BufUsed
	Buf      []byte // the caller-supplied buffer (full capacity)
	Sentinel bool   // reply object still held the sentinel after a failure
	// asynchronous forms: the Done channel (with spare room) and the call, kept
	// so that a later second signal or a rewritten Error can be seen
	Done chan *rpc.Call
	Call *rpc.Call
	// NoDone: Go(done=nil) returned a call without a Done channel
	NoDone bool
}

// LateSignals reports how many further completions arrived on the call's
// Done channel after the first one, and whether its Error changed since.
func (rec *CallRec) LateSignals() (extra int, errChanged bool) {
	if rec.Done != nil {
		extra = len(rec.Done)
	}
	if rec.Call != nil && rec.Call.Error != rec.Err {
		errChanged = true
	}
	return
}

// Sentinel is put into reply objects before a call so that a failed call can
// be checked to have left it untouched.
var Sentinel = []byte("untouched-reply-sentinel")

// Method returns the handler name for a codec and a shape.
func Method(codec string, shape int) string {
	return fmt.Sprintf("S.%s%d", svc.Prefix(codec), shape)
}

// DoOpt overrides parts of a call made by Do.
// ErrNoDone is what Do reports for a Go with a nil done channel that came
// back without a channel to wait on: such a call can never be completed.
var ErrNoDone = errors.New("rig: Go(done=nil) returned a call whose Done channel is nil: its completion can never be received")

type DoOpt struct {
	Args  interface{}     // argument object instead of a Box holding the payload
	Reply interface{}     // reply object instead of a Box holding the sentinel
	Ctx   context.Context // context for the CallWithContext forms
	// Out, when set, is the reply box to decode into: the caller's own reply
	// variable, reused from call to call while the values of earlier calls are
	// kept (it still holds the previous reply).
	Out svc.Box
}

// Do performs one unary call in the given form and waits for it.
// bufCap is the capacity of the context buffer for FormCtxBuf.
func Do(c Caller, form, codec, method string, spec svc.Spec, bufCap int, opt *DoOpt) *CallRec {
	args := svc.Build(spec)
	rec := &CallRec{ID: spec.ID(), Form: form, Method: method, Spec: spec, Args: args}
	in := svc.NewBox(codec)
	in.Set(args)
	out := svc.NewBox(codec)
	out.Set(append([]byte(nil), Sentinel...))
	if opt != nil && opt.Out != nil {
		out = opt.Out
	}
	prev := out.Get()
	prevSum := svc.Sum(prev)
	inObj, outObj := in.Ptr(), out.Ptr()
	ctx := context.Background()
	if opt != nil {
		if opt.Args != nil {
			inObj = opt.Args
		}
		if opt.Reply != nil {
			outObj = opt.Reply
		}
		if opt.Ctx != nil {
			ctx = opt.Ctx
		}
	}
	rec.StartT = time.Now()
	rec.Start = svc.Stamp()
	switch form {
	case FormCall:
		rec.Err = c.Call(method, inObj, outObj)
	case FormGo:
		if spec.Counter%2 == 1 {
			// "If done is nil, Go will allocate a new channel": the caller waits
			// on the channel of the returned call
			call := c.Go(method, inObj, outObj, nil)
			rec.Call = call
			if call == nil || call.Done == nil {
				rec.NoDone = true
				rec.Err = ErrNoDone
				break
			}
			rec.Done = call.Done
			<-rec.Done
			rec.Err = call.Error
			break
		}
		rec.Done = make(chan *rpc.Call, 4)
		call := c.Go(method, inObj, outObj, rec.Done)
		<-rec.Done
		rec.Call = call
		rec.Err = call.Error
	case FormRoundTrip:
		rec.Done = make(chan *rpc.Call, 4)
		call := &rpc.Call{ServiceMethod: method, Args: inObj, Reply: outObj, Done: rec.Done}
		c.RoundTrip(call)
		<-rec.Done
		rec.Call = call
		rec.Err = call.Error
	case FormCtx:
		rec.Err = c.CallWithContext(ctx, method, inObj, outObj)
	case FormCtxBuf:
		buf := make([]byte, bufCap)
		for i := range buf {
			buf[i] = 0xA5
		}
		rec.Buf = buf
		if spec.Counter%2 == 0 {
			// a buffer handed over with its full length (its contents are the
			// caller's business: here the canary pattern)
			ctx = context.WithValue(ctx, rpc.BufferContextKey, buf)
		} else {
			ctx = context.WithValue(ctx, rpc.BufferContextKey, buf[:0])
		}
		rec.Err = c.CallWithContext(ctx, method, inObj, outObj)
	default:
		rec.Err = errors.New("rig: unknown form " + form)
	}
	rec.End = svc.Stamp()
	rec.EndT = time.Now()
	if rec.Err != nil {
		rec.ErrText = string(append([]byte(nil), rec.Err.Error()...))
		now := out.Get()
		rec.Sentinel = opt != nil && opt.Reply != nil || len(now) == len(prev) && (len(now) == 0 || &now[0] == &prev[0]) && svc.Sum(now) == prevSum
		return rec
	}
	if opt != nil && opt.Reply != nil {
		return rec
	}
	rec.Reply = out.Get()
	rec.ReplySum = svc.Sum(rec.Reply)
	if form == FormCtxBuf && len(rec.Reply) > 0 && cap(rec.Buf) > 0 {
		off := uintptr(unsafe.Pointer(&rec.Reply[0])) - uintptr(unsafe.Pointer(&rec.Buf[0]))
		if off < uintptr(len(rec.Buf)) {
			rec.BufUsed = true
			rec.BufEnd = int(off) + len(rec.Reply)
		}
	}
	return rec
}

// CanaryIntact checks the bytes of the caller-supplied buffer the library
// had no business writing: encLen is the length of the encoded reply body (what
// the library copies into the buffer when it fits). If the buffer is too small
// for it, no byte may have changed; otherwise no byte from encLen on.
func (rec *CallRec) CanaryIntact(encLen int) (bool, int) {
	from := 0
	if encLen <= len(rec.Buf) {
		from = encLen
	}
	for i := from; i < len(rec.Buf); i++ {
		if rec.Buf[i] != 0xA5 {
			return false, i
		}
	}
	return true, -1
}

// EncodedLenFor returns the encoded length of an n-byte payload.
func EncodedLenFor(codec string, n int) int { return EncodedLen(codec, make([]byte, n)) }

// EncodedLen returns the length of payload when encoded by the body codec.
func EncodedLen(codec string, payload []byte) int {
	box := svc.NewBox(codec)
	box.Set(payload)
	b, err := svc.NewCodec(codec)().Marshal(nil, box.Ptr())
	if err != nil {
		return -1
	}
	return len(b)
}

// WaitUp waits until the server accepts connections.
func (r *Rig) WaitUp() error {
	if r.Net != nil {
		for i := 0; i < 5000; i++ {
			if r.Net.Listening(r.Addr) {
				return nil
			}
			time.Sleep(time.Millisecond)
		}
		return errors.New("rig: server is not listening")
	}
	conn, err := r.Dial()
	if err != nil {
		return err
	}
	conn.Close()
	return nil
}

// CheckReply is the C01 oracle for one successful call: "" if the reply is
// f(own args), otherwise a description of the mismatch.
func CheckReply(rec *CallRec) string {
	want := svc.Reply(rec.Args)
	if bytes.Equal(rec.Reply, want) {
		return ""
	}
	return DescribeMismatch(rec.Reply, want)
}

// DescribeMismatch explains how got differs from want.
func DescribeMismatch(got, want []byte) string {
	if len(got) != len(want) {
		s := fmt.Sprintf("reply length %d, expected %d", len(got), len(want))
		if len(got) >= svc.IDLen {
			if sp, ok := svc.Parse(append(append([]byte(nil), got[:svc.IDLen]...), make([]byte, svc.HeaderLen)...)); ok {
				s += "; reply carries id " + sp.ID()
			}
		}
		return s
	}
	for i := range got {
		if got[i] != want[i] {
			s := fmt.Sprintf("reply differs from f(args) at byte %d of %d", i, len(got))
			if i < svc.IDLen && len(got) >= svc.IDLen {
				if sp, ok := svc.Parse(append(append([]byte(nil), got[:svc.IDLen]...), make([]byte, svc.HeaderLen)...)); ok {
					s += "; reply carries id " + sp.ID()
				}
			}
			return s
		}
	}
	return ""
}
