package mon

import (
	"fmt"
	"regexp"
	"runtime"
	"strings"
	"sync/atomic"
	"syscall"
	"time"
)

var beats int64

// Beat records progress of the engine (any result line is a beat too).
func Beat() { atomic.AddInt64(&beats, 1) }

var gHdr = regexp.MustCompile(`(?m)^goroutine (\d+) \[([^\]]*)\]:$`)

func cpuTime() time.Duration {
	var ru syscall.Rusage
	if syscall.Getrusage(syscall.RUSAGE_SELF, &ru) != nil {
		return 0
	}
	return time.Duration(ru.Utime.Nano() + ru.Stime.Nano())
}

// StartDeadlockWatch starts a real-time watchdog (call it from outside any
// synctest bubble). A goroutine blocked on a sync.Mutex is not "durably
// blocked" for synctest, so a lock-order or self deadlock inside the library
// freezes the bubble in real time instead of surfacing as "blocked at
// quiescence". The watchdog decides without a deadline on the work itself:
// when the engine has made no progress AND the process has used (almost) no
// CPU for `quiet` of real time AND some goroutine whose stack has library
// frames waits for a mutex, nothing can ever release that mutex (virtual time
// cannot advance, nobody is running), which is a deadlock. It then emits a
// violation for prop with the stacks as witness and ends the process.
func StartDeadlockWatch(prop, engine string, quiet time.Duration, exit func()) {
	go func() {
		lastBeats := atomic.LoadInt64(&beats)
		lastCPU := cpuTime()
		idleSince := time.Now()
		for {
			time.Sleep(2 * time.Second)
			b, c := atomic.LoadInt64(&beats), cpuTime()
			if b != lastBeats || c-lastCPU > 100*time.Millisecond {
				lastBeats, lastCPU, idleSince = b, c, time.Now()
				continue
			}
			lastCPU = c
			if time.Since(idleSince) < quiet {
				continue
			}
			buf := make([]byte, 8<<20)
			buf = buf[:runtime.Stack(buf, true)]
			var culprits []string
			for _, g := range strings.Split(string(buf), "\n\n") {
				m := gHdr.FindStringSubmatch(g)
				if m == nil {
					continue
				}
				st := m[2]
				// "semacquire" is also the state of sync.WaitGroup.Wait on older
				// toolchains (netpoll's Serve waits that way for as long as a
				// poll-mode server runs): only a semaphore wait entered from a
				// Mutex or RWMutex method counts.
				onMutex := strings.HasPrefix(st, "sync.Mutex.Lock") || strings.HasPrefix(st, "sync.RWMutex") ||
					strings.HasPrefix(st, "semacquire") && (strings.Contains(g, "\nsync.(*Mutex).") || strings.Contains(g, "\nsync.(*RWMutex)."))
				if !onMutex {
					continue
				}
				if strings.Contains(g, "github.com/hslam/") {
					culprits = append(culprits, g)
				}
			}
			if len(culprits) == 0 {
				idleSince = time.Now() // idle for another reason (e.g. waiting for a real timer)
				continue
			}
			// Not every frozen bubble is a deadlock. If the library (or a
			// dependency) holds a mutex across a timed wait - say around a
			// handler that sleeps - the goroutines waiting for that mutex are
			// not durably blocked, virtual time cannot advance, and the timed
			// wait never ends: an artefact of the substrate, not a fault of the
			// code (in real time the sleeper wakes up and unlocks). A goroutine
			// in a timed sleep below library frames may be such a holder, so in
			// its presence the verdict is "cannot tell".
			var sleepers []string
			for _, g := range strings.Split(string(buf), "\n\n") {
				m := gHdr.FindStringSubmatch(g)
				if m == nil || !strings.HasPrefix(m[2], "sleep") {
					continue
				}
				if strings.Contains(g, "github.com/hslam/") {
					sleepers = append(sleepers, g)
				}
			}
			if len(sleepers) > 0 {
				w := culprits[0] + "\n\n" + sleepers[0]
				if len(w) > 8000 {
					w = w[:8000]
				}
				Emit(Result{T: "case", Engine: engine, Case: "freeze-watch", Verdict: Inconclusive, Prop: prop,
					What:    fmt.Sprintf("the process has made no progress for %v: %d goroutines wait for a mutex while %d goroutines below library frames are in a timed sleep that virtual time cannot end (a mutex held across a timed wait cannot run on this substrate); the rest of this child's cases were not run", quiet, len(culprits), len(sleepers)),
					Witness: map[string]string{"stacks": w}})
				Close()
				exit()
				return
			}
			fr := "?"
			for _, l := range strings.Split(culprits[0], "\n") {
				if strings.HasPrefix(l, "github.com/hslam/") {
					if i := strings.LastIndex(l, "("); i > 0 {
						fr = l[:i]
					}
					break
				}
			}
			w := strings.Join(culprits, "\n\n")
			if len(w) > 12000 {
				w = w[:12000]
			}
			Emit(Result{T: "case", Engine: engine, Case: "deadlock-watch", Verdict: Violated, Prop: prop,
				What:    fmt.Sprintf("deadlock: %d goroutines with library frames wait for a mutex (first in %s) while the process has made no progress and used no CPU for %v; nothing can release that mutex, callers are blocked for ever", len(culprits), fr, quiet),
				FSig:    "deadlock/" + fr,
				Witness: map[string]string{"stacks": w}})
			Close()
			exit()
			return
		}
	}()
}
