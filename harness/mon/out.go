// Package mon carries scenario results from the engines (child processes) to
// the driver: one JSON object per line in the file named by $VT_OUT.
package mon

import (
	"encoding/json"
	"fmt"
	"os"
	"sync"
)

// Verdicts.
const (
	Held         = "held"
	Violated     = "violated"
	Inconclusive = "inconclusive"
)

// Result is one line of the result file.
type Result struct {
	T          string           `json:"t"` // "progress", "case", "note"
	Engine     string           `json:"engine,omitempty"`
	Case       string           `json:"case,omitempty"`
	Sig        string           `json:"sig,omitempty"` // signature for distinct_nontrivial
	Nontrivial bool             `json:"nontrivial,omitempty"`
	Verdict    string           `json:"verdict,omitempty"`
	Prop       string           `json:"prop,omitempty"`
	What       string           `json:"what,omitempty"`
	FSig       string           `json:"fsig,omitempty"` // known-finding signature
	Witness    interface{}      `json:"witness,omitempty"`
	Stats      map[string]int64 `json:"stats,omitempty"`
	Sample     interface{}      `json:"sample,omitempty"`
	N          int              `json:"n,omitempty"`    // this line stands for N evaluated cases (default 1)
	Sigs       []string         `json:"sigs,omitempty"` // distinct non-trivial signatures covered by this line
}

var (
	mu  sync.Mutex
	out *os.File
)

// Open opens the result file ($VT_OUT, or stdout when unset).
func Open() {
	mu.Lock()
	defer mu.Unlock()
	if p := os.Getenv("VT_OUT"); p != "" {
		f, err := os.OpenFile(p, os.O_CREATE|os.O_WRONLY|os.O_APPEND, 0o644)
		if err != nil {
			fmt.Fprintln(os.Stderr, "mon: cannot open", p, err)
			os.Exit(3)
		}
		out = f
		return
	}
	out = os.Stdout
}

// Emit writes one result line.
func Emit(r Result) {
	b, err := json.Marshal(r)
	if err != nil {
		b, _ = json.Marshal(Result{T: "note", What: "unmarshalable result: " + err.Error(), Case: r.Case})
	}
	b = append(b, '\n')
	Beat()
	mu.Lock()
	if out == nil {
		out = os.Stdout
	}
	out.Write(b)
	mu.Unlock()
}

// Progress records that a case is about to start (crash sentinel).
func Progress(engine, c string) { Emit(Result{T: "progress", Engine: engine, Case: c}) }

// Note records a free-text remark.
func Note(engine, what string) { Emit(Result{T: "note", Engine: engine, What: what}) }

// Done marks the orderly end of the child.
func Done(engine string) { Emit(Result{T: "done", Engine: engine}) }

// Close flushes the result file.
func Close() {
	mu.Lock()
	if out != nil && out != os.Stdout {
		out.Sync()
		out.Close()
	}
	out = nil
	mu.Unlock()
}
