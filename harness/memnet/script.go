package memnet

import (
	"io"
	"sync"
)

// Scripted is a socket.Messages whose other side is played by the harness:
// frames to be read are pushed one at a time, and every WriteMessage can be
// held at a gate until the harness releases it with success or failure.
type Scripted struct {
	mu     sync.Mutex
	cond   *sync.Cond
	in     []inItem
	writes []*PendingWrite
	gated  bool
	closed bool
	nread  int
}

type inItem struct {
	frame []byte
	err   error
}

// PendingWrite is one WriteMessage call.
type PendingWrite struct {
	Frame    []byte
	released bool
	err      error
	Done     bool // the call has returned
}

// NewScripted returns a Scripted; with gated set every write waits for Release.
func NewScripted(gated bool) *Scripted {
	s := &Scripted{gated: gated}
	s.cond = sync.NewCond(&s.mu)
	return s
}

// ReadMessage implements socket.Messages.
func (s *Scripted) ReadMessage(buf []byte) ([]byte, error) {
	s.mu.Lock()
	defer s.mu.Unlock()
	for {
		if s.closed {
			return nil, io.EOF
		}
		if len(s.in) > 0 {
			it := s.in[0]
			s.in = s.in[1:]
			s.nread++
			if it.err != nil {
				// an error is sticky, like a dead socket
				s.in = append([]inItem{it}, s.in...)
				return nil, it.err
			}
			var p []byte
			if cap(buf) >= len(it.frame) {
				p = buf[:len(it.frame)]
			} else {
				p = make([]byte, len(it.frame))
			}
			copy(p, it.frame)
			return p, nil
		}
		s.cond.Wait()
	}
}

// WriteMessage implements socket.Messages.
func (s *Scripted) WriteMessage(b []byte) error {
	s.mu.Lock()
	defer s.mu.Unlock()
	if s.closed {
		return io.EOF
	}
	w := &PendingWrite{Frame: append([]byte(nil), b...)}
	s.writes = append(s.writes, w)
	s.cond.Broadcast()
	if s.gated {
		for !w.released && !s.closed {
			s.cond.Wait()
		}
		if !w.released && s.closed {
			w.err = io.EOF
		}
	}
	w.Done = true
	return w.err
}

// Close implements socket.Messages.
func (s *Scripted) Close() error {
	s.mu.Lock()
	s.closed = true
	s.mu.Unlock()
	s.cond.Broadcast()
	return nil
}

// Closed reports whether Close was called.
func (s *Scripted) Closed() bool {
	s.mu.Lock()
	defer s.mu.Unlock()
	return s.closed
}

// Push makes frame available to the next ReadMessage.
func (s *Scripted) Push(frame []byte) {
	s.mu.Lock()
	s.in = append(s.in, inItem{frame: append([]byte(nil), frame...)})
	s.mu.Unlock()
	s.cond.Broadcast()
}

// PushErr makes the reader fail with err (io.EOF for an orderly end).
func (s *Scripted) PushErr(err error) {
	s.mu.Lock()
	s.in = append(s.in, inItem{err: err})
	s.mu.Unlock()
	s.cond.Broadcast()
}

// Unread returns the number of pushed items not yet consumed.
func (s *Scripted) Unread() int {
	s.mu.Lock()
	defer s.mu.Unlock()
	n := 0
	for _, it := range s.in {
		if it.err == nil {
			n++
		}
	}
	return n
}

// Writes returns a snapshot of all WriteMessage calls so far.
func (s *Scripted) Writes() []*PendingWrite {
	s.mu.Lock()
	defer s.mu.Unlock()
	return append([]*PendingWrite(nil), s.writes...)
}

// NumWrites returns the number of WriteMessage calls so far.
func (s *Scripted) NumWrites() int {
	s.mu.Lock()
	defer s.mu.Unlock()
	return len(s.writes)
}

// Release lets the i-th write return err (nil = success). It reports whether
// the write existed and was still held.
func (s *Scripted) Release(i int, err error) bool {
	s.mu.Lock()
	if i < 0 || i >= len(s.writes) || s.writes[i].released {
		s.mu.Unlock()
		return false
	}
	s.writes[i].released = true
	s.writes[i].err = err
	s.mu.Unlock()
	s.cond.Broadcast()
	return true
}

// Frame returns a copy of the i-th written frame.
func (s *Scripted) Frame(i int) []byte {
	s.mu.Lock()
	defer s.mu.Unlock()
	if i < 0 || i >= len(s.writes) {
		return nil
	}
	return append([]byte(nil), s.writes[i].Frame...)
}
