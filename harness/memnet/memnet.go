// Package memnet is an in-memory implementation of hslam/socket's Socket,
// Listener and Conn with fault injection (monitor M4 of DESIGN.md).
//
// It blocks only on sync.Cond, so it can run inside a testing/synctest bubble
// (Cond.Wait is durably blocking) as well as in real time.
package memnet

import (
	"crypto/tls"
	"errors"
	"fmt"
	"io"
	"math/rand"
	"net"
	"sync"
	"time"

	"github.com/hslam/netpoll"
	"github.com/hslam/socket"
)

// Cut kinds.
const (
	KindReset  = "reset"  // both directions fail at once with "connection reset by peer"
	KindEOF    = "eof"    // cut direction reads io.EOF; the other direction drains, then EOF
	KindCustom = "custom" // cut direction reads a custom I/O error; the other drains, then EOF
)

var (
	errClosed  = errors.New("memnet: use of closed network connection")
	errReset   = errors.New("memnet: connection reset by peer")
	errPipe    = errors.New("memnet: write: broken pipe")
	errRefused = errors.New("memnet: connect: connection refused")
	// ErrCustom is the error delivered by KindCustom cuts.
	ErrCustom = errors.New("memnet: injected i/o error")
	// ErrUnsupported is returned by the netpoll entry points.
	ErrUnsupported = errors.New("memnet: netpoll serving is not supported")
)

// Dir names a direction of a connection.
type Dir int

const (
	// C2S is the client-to-server direction.
	C2S Dir = iota
	// S2C is the server-to-client direction.
	S2C
)

func (d Dir) String() string {
	if d == C2S {
		return "c2s"
	}
	return "s2c"
}

// Net is one in-memory network.
type Net struct {
	mu        sync.Mutex
	listeners map[string]*Listener
	pairs     []*Pair
	live      map[string]int
	hiwater   map[string]int
	dials     map[string]int
	refused   map[string]int
	rng       *rand.Rand
	// FragMax > 0 makes every Read return at most 1..FragMax bytes (PRNG).
	FragMax int
	// Tap records every byte written, per direction, in Pair.Tap.
	Tap bool
	// OnDial, if set, is called under the network lock after a successful
	// dial with the number of live client-side connections to addr
	// (including the new one). It must not call back into the Net.
	OnDial func(addr string, live int)
	// OnPair, if set, is called (outside the lock) for every new pair before
	// it is handed to either side; use it to install cuts.
	OnPair func(p *Pair)
	// DialErr, if set, is consulted first; a non-nil result refuses the dial.
	DialErr func(addr string) error
	// Now returns the current (virtual) time for event stamps.
	Now func() time.Time
}

// New returns an empty network.
func New(seed int64) *Net {
	return &Net{
		listeners: make(map[string]*Listener),
		live:      make(map[string]int),
		hiwater:   make(map[string]int),
		dials:     make(map[string]int),
		refused:   make(map[string]int),
		rng:       rand.New(rand.NewSource(seed)),
		Now:       time.Now,
	}
}

// Socket returns a socket.Socket bound to this network.
func (n *Net) Socket() socket.Socket { return &sock{n: n} }

// NewSocket has the signature rpc.Options.NewSocket wants.
func (n *Net) NewSocket(*tls.Config) socket.Socket { return n.Socket() }

// Live returns the number of client-side connections to addr not yet closed
// by the client side.
func (n *Net) Live(addr string) int {
	n.mu.Lock()
	defer n.mu.Unlock()
	return n.live[addr]
}

// LiveTotal returns the number of client ends not closed over all addresses.
func (n *Net) LiveTotal() int {
	n.mu.Lock()
	defer n.mu.Unlock()
	t := 0
	for _, v := range n.live {
		t += v
	}
	return t
}

// HighWater returns the largest value Live(addr) ever had.
func (n *Net) HighWater(addr string) int {
	n.mu.Lock()
	defer n.mu.Unlock()
	return n.hiwater[addr]
}

// Dials returns the number of successful and refused dials to addr.
func (n *Net) Dials(addr string) (ok, refused int) {
	n.mu.Lock()
	defer n.mu.Unlock()
	return n.dials[addr], n.refused[addr]
}

// Pairs returns a snapshot of every connection ever made.
func (n *Net) Pairs() []*Pair {
	n.mu.Lock()
	defer n.mu.Unlock()
	return append([]*Pair(nil), n.pairs...)
}

// OpenServerEnds returns the number of server ends not closed.
func (n *Net) OpenServerEnds() int {
	c := 0
	for _, p := range n.Pairs() {
		p.mu.Lock()
		if !p.ends[1].closed {
			c++
		}
		p.mu.Unlock()
	}
	return c
}

// Listening reports whether addr has an open listener.
func (n *Net) Listening(addr string) bool {
	n.mu.Lock()
	defer n.mu.Unlock()
	return n.listeners[addr] != nil
}

// Kill closes the listener of addr (if any) and resets every connection to it.
func (n *Net) Kill(addr string) {
	n.mu.Lock()
	l := n.listeners[addr]
	ps := append([]*Pair(nil), n.pairs...)
	n.mu.Unlock()
	if l != nil {
		l.Close()
	}
	for _, p := range ps {
		if p.Addr == addr {
			p.Break(KindReset)
		}
	}
}

func (n *Net) frag() int {
	if n.FragMax <= 0 {
		return 0
	}
	n.mu.Lock()
	f := 1 + n.rng.Intn(n.FragMax)
	n.mu.Unlock()
	return f
}

type sock struct{ n *Net }

func (s *sock) Scheme() string { return "mem" }

func (s *sock) Dial(address string) (socket.Conn, error) {
	n := s.n
	if n.DialErr != nil {
		if err := n.DialErr(address); err != nil {
			n.mu.Lock()
			n.refused[address]++
			n.mu.Unlock()
			return nil, err
		}
	}
	n.mu.Lock()
	l := n.listeners[address]
	if l == nil {
		n.refused[address]++
		n.mu.Unlock()
		return nil, errRefused
	}
	p := newPair(n, address, len(n.pairs))
	n.pairs = append(n.pairs, p)
	n.dials[address]++
	n.live[address]++
	if n.live[address] > n.hiwater[address] {
		n.hiwater[address] = n.live[address]
	}
	if n.OnDial != nil {
		n.OnDial(address, n.live[address])
	}
	n.mu.Unlock()
	if n.OnPair != nil {
		n.OnPair(p)
	}
	l.mu.Lock()
	if l.closed {
		l.mu.Unlock()
		p.ends[0].Close()
		p.ends[1].Close()
		return nil, errRefused
	}
	l.queue = append(l.queue, p.ends[1])
	l.mu.Unlock()
	l.cond.Broadcast()
	return p.ends[0], nil
}

func (s *sock) Listen(address string) (socket.Listener, error) {
	n := s.n
	n.mu.Lock()
	defer n.mu.Unlock()
	if n.listeners[address] != nil {
		return nil, fmt.Errorf("memnet: listen %s: address already in use", address)
	}
	l := &Listener{n: n, addr: address}
	l.cond = sync.NewCond(&l.mu)
	n.listeners[address] = l
	return l, nil
}

// Listener is an in-memory socket.Listener.
type Listener struct {
	n      *Net
	addr   string
	mu     sync.Mutex
	cond   *sync.Cond
	queue  []*End
	closed bool
}

// Accept waits for the next connection.
func (l *Listener) Accept() (socket.Conn, error) {
	l.mu.Lock()
	defer l.mu.Unlock()
	for {
		if l.closed {
			return nil, errClosed
		}
		if len(l.queue) > 0 {
			e := l.queue[0]
			l.queue = l.queue[1:]
			return e, nil
		}
		l.cond.Wait()
	}
}

// Close closes the listener and every connection not yet accepted.
func (l *Listener) Close() error {
	l.mu.Lock()
	if l.closed {
		l.mu.Unlock()
		return nil
	}
	l.closed = true
	q := l.queue
	l.queue = nil
	l.mu.Unlock()
	l.n.mu.Lock()
	if l.n.listeners[l.addr] == l {
		delete(l.n.listeners, l.addr)
	}
	l.n.mu.Unlock()
	for _, e := range q {
		e.Close()
	}
	l.cond.Broadcast()
	return nil
}

type addr string

func (a addr) Network() string { return "mem" }
func (a addr) String() string  { return string(a) }

// Addr returns the listener's address.
func (l *Listener) Addr() net.Addr { return addr(l.addr) }

// Serve is not supported.
func (l *Listener) Serve(netpoll.Handler) error { return ErrUnsupported }

// ServeData is not supported.
func (l *Listener) ServeData(func(net.Conn) error, func([]byte) []byte) error {
	return ErrUnsupported
}

// ServeConn is not supported.
func (l *Listener) ServeConn(func(net.Conn) (socket.Context, error), func(socket.Context) error) error {
	return ErrUnsupported
}

// ServeMessages is not supported.
func (l *Listener) ServeMessages(func(socket.Messages) (socket.Context, error), func(socket.Context) error) error {
	return ErrUnsupported
}

type half struct {
	buf       []byte
	delivered int64
	written   int64
	cutAt     int64 // -1: none
	cutKind   string
}

// Pair is one connection: ends[0] is the client end, ends[1] the server end.
type Pair struct {
	n    *Net
	Addr string
	ID   int
	mu   sync.Mutex
	cond *sync.Cond
	ends [2]*End
	h    [2]half // indexed by Dir
	// broken state
	broken  bool
	brkKind string
	brkDir  Dir
	// Tap holds every byte written per direction when Net.Tap is set.
	Tap [2][]byte
	// Events is a log of lifecycle events ("dial", "client-close",
	// "server-close", "break:<kind>:<dir>@<off>") with their times.
	Events []Event
}

// Event is a lifecycle event of a Pair.
type Event struct {
	What string
	At   time.Time
}

func newPair(n *Net, address string, id int) *Pair {
	p := &Pair{n: n, Addr: address, ID: id}
	p.cond = sync.NewCond(&p.mu)
	p.h[0].cutAt, p.h[1].cutAt = -1, -1
	p.ends[0] = &End{p: p, side: 0}
	p.ends[1] = &End{p: p, side: 1}
	p.Events = append(p.Events, Event{"dial", n.Now()})
	return p
}

// Client returns the client end.
func (p *Pair) Client() *End { return p.ends[0] }

// Server returns the server end.
func (p *Pair) Server() *End { return p.ends[1] }

// CutAt arranges that the reader of direction d receives exactly off bytes
// and that its next Read trips the break of the given kind.
func (p *Pair) CutAt(d Dir, off int64, kind string) {
	p.mu.Lock()
	p.h[d].cutAt = off
	p.h[d].cutKind = kind
	p.mu.Unlock()
	p.cond.Broadcast()
}

// Break breaks the connection now (as if a cut had tripped on direction S2C).
func (p *Pair) Break(kind string) {
	p.mu.Lock()
	p.breakLocked(S2C, kind)
	p.mu.Unlock()
	p.cond.Broadcast()
}

func (p *Pair) breakLocked(d Dir, kind string) {
	if p.broken {
		return
	}
	p.broken = true
	p.brkKind = kind
	p.brkDir = d
	p.Events = append(p.Events, Event{fmt.Sprintf("break:%s:%s@%d", kind, d, p.h[d].delivered), p.n.Now()})
}

// Broken reports whether a cut has tripped.
func (p *Pair) Broken() bool {
	p.mu.Lock()
	defer p.mu.Unlock()
	return p.broken
}

// Counts returns bytes written and delivered for direction d.
func (p *Pair) Counts(d Dir) (written, delivered int64) {
	p.mu.Lock()
	defer p.mu.Unlock()
	return p.h[d].written, p.h[d].delivered
}

// TapCopy returns a copy of the bytes written in direction d.
func (p *Pair) TapCopy(d Dir) []byte {
	p.mu.Lock()
	defer p.mu.Unlock()
	return append([]byte(nil), p.Tap[d]...)
}

// ClosedBy reports which ends have been closed.
func (p *Pair) ClosedBy() (client, server bool) {
	p.mu.Lock()
	defer p.mu.Unlock()
	return p.ends[0].closed, p.ends[1].closed
}

// EventLog returns a copy of the event log.
func (p *Pair) EventLog() []Event {
	p.mu.Lock()
	defer p.mu.Unlock()
	return append([]Event(nil), p.Events...)
}

// End is one end of a Pair; it implements socket.Conn.
type End struct {
	p      *Pair
	side   int // 0 client, 1 server
	closed bool
}

func (e *End) inDir() Dir {
	if e.side == 0 {
		return S2C
	}
	return C2S
}

func (e *End) outDir() Dir {
	if e.side == 0 {
		return C2S
	}
	return S2C
}

func brkErr(kind string) error {
	switch kind {
	case KindReset:
		return errReset
	case KindCustom:
		return ErrCustom
	}
	return io.EOF
}

// Read implements net.Conn.
func (e *End) Read(b []byte) (int, error) {
	if len(b) == 0 {
		return 0, nil
	}
	p := e.p
	frag := p.n.frag()
	p.mu.Lock()
	defer p.mu.Unlock()
	d := e.inDir()
	h := &p.h[d]
	for {
		if e.closed {
			return 0, errClosed
		}
		if !p.broken && h.cutAt >= 0 && h.delivered >= h.cutAt {
			p.breakLocked(d, h.cutKind)
			p.cond.Broadcast()
		}
		if p.broken {
			if p.brkDir == d {
				return 0, brkErr(p.brkKind)
			}
			if p.brkKind == KindReset {
				return 0, errReset
			}
			if len(h.buf) == 0 {
				return 0, io.EOF
			}
		}
		if len(h.buf) > 0 {
			n := len(b)
			if n > len(h.buf) {
				n = len(h.buf)
			}
			if frag > 0 && n > frag {
				n = frag
			}
			if h.cutAt >= 0 && !p.broken && int64(n) > h.cutAt-h.delivered {
				n = int(h.cutAt - h.delivered)
			}
			copy(b, h.buf[:n])
			h.buf = h.buf[n:]
			if len(h.buf) == 0 {
				h.buf = nil
			}
			h.delivered += int64(n)
			return n, nil
		}
		if p.ends[1-e.side].closed {
			return 0, io.EOF
		}
		p.cond.Wait()
	}
}

// Write implements net.Conn. It never blocks (unbounded buffering).
func (e *End) Write(b []byte) (int, error) {
	p := e.p
	p.mu.Lock()
	if e.closed {
		p.mu.Unlock()
		return 0, errClosed
	}
	if p.broken {
		k := p.brkKind
		p.mu.Unlock()
		if k == KindReset {
			return 0, errReset
		}
		return 0, errPipe
	}
	if p.ends[1-e.side].closed {
		p.mu.Unlock()
		return 0, errPipe
	}
	d := e.outDir()
	h := &p.h[d]
	h.buf = append(h.buf, b...)
	h.written += int64(len(b))
	if p.n.Tap {
		p.Tap[d] = append(p.Tap[d], b...)
	}
	p.mu.Unlock()
	p.cond.Broadcast()
	return len(b), nil
}

// Close implements net.Conn.
func (e *End) Close() error {
	p := e.p
	p.mu.Lock()
	if e.closed {
		p.mu.Unlock()
		return nil
	}
	e.closed = true
	what := "client-close"
	if e.side == 1 {
		what = "server-close"
	}
	p.Events = append(p.Events, Event{what, p.n.Now()})
	p.mu.Unlock()
	if e.side == 0 {
		p.n.mu.Lock()
		p.n.live[p.Addr]--
		p.n.mu.Unlock()
	}
	p.cond.Broadcast()
	return nil
}

// Pair returns the connection this end belongs to.
func (e *End) Pair() *Pair { return e.p }

// LocalAddr implements net.Conn.
func (e *End) LocalAddr() net.Addr { return addr(fmt.Sprintf("%s#%d/%d", e.p.Addr, e.p.ID, e.side)) }

// RemoteAddr implements net.Conn.
func (e *End) RemoteAddr() net.Addr {
	return addr(fmt.Sprintf("%s#%d/%d", e.p.Addr, e.p.ID, 1-e.side))
}

// SetDeadline implements net.Conn (no-op).
func (e *End) SetDeadline(time.Time) error { return nil }

// SetReadDeadline implements net.Conn (no-op).
func (e *End) SetReadDeadline(time.Time) error { return nil }

// SetWriteDeadline implements net.Conn (no-op).
func (e *End) SetWriteDeadline(time.Time) error { return nil }

// Messages implements socket.Conn.
func (e *End) Messages() socket.Messages { return socket.NewMessages(e, false) }

// Connection implements socket.Conn.
func (e *End) Connection() net.Conn { return e }

// Pipe returns a connected pair outside any listener (address "pipe").
func (n *Net) Pipe() *Pair {
	n.mu.Lock()
	p := newPair(n, "pipe", len(n.pairs))
	n.pairs = append(n.pairs, p)
	n.live["pipe"]++
	n.mu.Unlock()
	if n.OnPair != nil {
		n.OnPair(p)
	}
	return p
}
