package main

import (
	"bytes"
	"encoding/hex"
	"fmt"
	"io"
	"math/rand"
	"sort"
	"time"

	"github.com/hslam/rpc"
	"verif/harness/memnet"
	"verif/harness/mon"
	"verif/harness/svc"
	"verif/harness/wire"
)

// Engine "codec" decides C07: header round trips and format conformance.

func init() { engines["codec"] = codecEngine }

var (
	seqList = []uint64{0, 1, 127, 128, 16383, 16384, 1<<21 - 1, 1 << 21, 1<<21 + 1, 1<<28 - 1, 1 << 28, 1<<28 + 1,
		1 << 32, 1<<35 - 1, 1 << 35, 1<<35 + 1, 1<<42 - 1, 1 << 49, 1 << 56, 1<<56 - 1, 1 << 63, 1<<63 - 1, 1<<64 - 1}
	lenList    = []int{0, 1, 2, 127, 128, 129, 16383, 16384, 16385, 65535, 65536, 65537}
	bigLenList = []int{2097151, 2097152, 2097153, 3 << 20}
	upLenList  = []int{0, 1, 2, 127, 128}
)

type hmsg struct {
	isReq bool
	seq   uint64
	up    []byte // requests only
	str   string // method or error
	body  []byte
}

func (m hmsg) sig(format string) string {
	cls := func(n int) string {
		switch {
		case n == 0:
			return "0"
		case n < 127:
			return "s"
		case n <= 129:
			return fmt.Sprint(n)
		case n < 16383:
			return "m"
		case n <= 16385:
			return fmt.Sprint(n)
		case n < 65535:
			return "l"
		case n <= 65537:
			return fmt.Sprint(n)
		case n < 2097151:
			return "xl"
		}
		return fmt.Sprint(n)
	}
	sc := 0
	for v := m.seq; v > 0; v >>= 7 {
		sc++
	}
	k := "res"
	if m.isReq {
		k = "req"
	}
	return fmt.Sprintf("%s/%s/seq%d/u%s/s%s/b%s", format, k, sc, cls(len(m.up)), cls(len(m.str)), cls(len(m.body)))
}

func (m hmsg) brief() map[string]interface{} {
	h := func(b []byte) string {
		if len(b) > 24 {
			return hex.EncodeToString(b[:24]) + "…"
		}
		return hex.EncodeToString(b)
	}
	return map[string]interface{}{"req": m.isReq, "seq": m.seq, "upgrade_len": len(m.up), "str_len": len(m.str), "body_len": len(m.body),
		"upgrade": h(m.up), "str": h([]byte(m.str)), "body": h(m.body)}
}

type codecRun struct {
	a     Args
	rng   *rand.Rand
	evals int
	sigs  map[string]bool
	viols int
	samp  []interface{}
}

func (c *codecRun) violate(cs, what, fsig string, w interface{}) {
	c.viols++
	if c.viols > 40 {
		return
	}
	mon.Emit(mon.Result{T: "case", Engine: "codec", Case: cs, Verdict: mon.Violated, Prop: "C07", What: what, FSig: fsig, Witness: w})
}

func (c *codecRun) randBytes(n int) []byte {
	b := make([]byte, n)
	c.rng.Read(b)
	return b
}

func (c *codecRun) randUTF8(n int) string {
	runes := []string{"a", "b", "Z", "0", "é", "ß", "語", "€", "𝄞", " ", "\"", "\\", "<", "&", "\n", " "}
	b := make([]byte, 0, n)
	for len(b) < n {
		r := runes[c.rng.Intn(len(runes))]
		if len(b)+len(r) > n {
			r = "."
		}
		b = append(b, r...)
	}
	return string(b)
}

func (c *codecRun) genMsg(format string, isReq bool, seq uint64, ulen, slen, blen int) hmsg {
	m := hmsg{isReq: isReq, seq: seq}
	if isReq && ulen > 0 {
		m.up = c.randBytes(ulen)
	}
	if slen > 0 {
		if format == wire.JSON {
			m.str = c.randUTF8(slen)
		} else {
			m.str = string(c.randBytes(slen))
		}
	}
	if blen > 0 {
		m.body = c.randBytes(blen)
	}
	return m
}

func libMarshal(enc rpc.Encoder, m hmsg, buf []byte) (out []byte, err error) {
	defer func() {
		if r := recover(); r != nil {
			err = fmt.Errorf("panic: %v", r)
		}
	}()
	codec := enc.NewCodec()
	if m.isReq {
		r := enc.NewRequest()
		r.SetSeq(m.seq)
		r.SetUpgrade(m.up)
		r.SetServiceMethod(m.str)
		r.SetArgs(m.body)
		return codec.Marshal(buf, r)
	}
	r := enc.NewResponse()
	r.SetSeq(m.seq)
	r.SetError(m.str)
	r.SetReply(m.body)
	return codec.Marshal(buf, r)
}

// libUnmarshal decodes data; dirty first fills the object with other values
// and Resets it, as the library's pooled use does.
func libUnmarshal(enc rpc.Encoder, isReq bool, data []byte, dirty bool) (m hmsg, err error) {
	defer func() {
		if r := recover(); r != nil {
			err = fmt.Errorf("panic: %v", r)
		}
	}()
	codec := enc.NewCodec()
	m.isReq = isReq
	if isReq {
		r := enc.NewRequest()
		if dirty {
			r.SetSeq(0xdeadbeef)
			r.SetUpgrade([]byte{9, 9, 9})
			r.SetServiceMethod("stale.method")
			r.SetArgs([]byte("stale args"))
			r.Reset()
		}
		if err = codec.Unmarshal(data, r); err != nil {
			return
		}
		m.seq, m.up, m.str, m.body = r.GetSeq(), r.GetUpgrade(), r.GetServiceMethod(), r.GetArgs()
		return
	}
	r := enc.NewResponse()
	if dirty {
		r.SetSeq(0xdeadbeef)
		r.SetError("stale error")
		r.SetReply([]byte("stale reply"))
		r.Reset()
	}
	if err = codec.Unmarshal(data, r); err != nil {
		return
	}
	m.seq, m.str, m.body = r.GetSeq(), r.GetError(), r.GetReply()
	return
}

func eqMsg(a, b hmsg) bool {
	return a.seq == b.seq && bytes.Equal(a.up, b.up) && a.str == b.str && bytes.Equal(a.body, b.body)
}

func refDecode(format string, isReq bool, data []byte, strict bool) (hmsg, error) {
	if isReq {
		r, err := wire.DecodeReq(format, data, strict)
		return hmsg{isReq: true, seq: r.Seq, up: r.Upgrade, str: r.Method, body: r.Args}, err
	}
	r, err := wire.DecodeRes(format, data, strict)
	return hmsg{seq: r.Seq, str: r.Error, body: r.Reply}, err
}

func refEncode(format string, m hmsg) []byte {
	if m.isReq {
		return wire.EncodeReq(format, wire.Req{Seq: m.seq, Upgrade: m.up, Method: m.str, Args: m.body})
	}
	return wire.EncodeRes(format, wire.Res{Seq: m.seq, Error: m.str, Reply: m.body})
}

// checkDirect runs every C07 obligation on one header value.
func (c *codecRun) checkDirect(format string, enc rpc.Encoder, m hmsg, prev []byte) []byte {
	c.evals++
	c.sigs[m.sig(format)] = true
	cs := m.sig(format) + fmt.Sprintf("#%d", c.evals)
	first, err := libMarshal(enc, m, nil)
	if err != nil {
		c.violate(cs, "Marshal failed: "+err.Error(), "C07/"+format+"/marshal-fails", m.brief())
		return prev
	}
	first = append([]byte(nil), first...)
	n := len(first)
	// scratch-buffer independence
	variants := map[string][]byte{
		"cap0":     make([]byte, 0),
		"cap n-1":  make([]byte, 0, max(0, n-1)),
		"cap n":    bytes.Repeat([]byte{0xff}, n)[:0],
		"cap n+1":  bytes.Repeat([]byte{0xff}, n+1)[:0],
		"large ff": bytes.Repeat([]byte{0xff}, n+4096)[:0],
		"large 00": make([]byte, n+70000)[:0],
		"len>0":    bytes.Repeat([]byte{0x55}, n+50),
	}
	if prev != nil {
		variants["previous output"] = prev
	}
	names := make([]string, 0, len(variants))
	for k := range variants {
		names = append(names, k)
	}
	sort.Strings(names)
	for _, name := range names {
		out, err := libMarshal(enc, m, variants[name])
		if err != nil || !bytes.Equal(out, first) {
			c.violate(cs, fmt.Sprintf("Marshal output depends on the scratch buffer (%s): err=%v, %d bytes vs %d", name, err, len(out), n),
				"C07/"+format+"/scratch-dependent", m.brief())
			break
		}
	}
	// documented format: the reference decoder must read the same fields
	if got, err := refDecode(format, m.isReq, first, true); err != nil {
		c.violate(cs, "encoded header is not in the documented format: "+err.Error(), "C07/"+format+"/nonconforming", m.brief())
	} else if !eqMsg(got, m) {
		c.violate(cs, "reference decoder reads different fields from the encoded header", "C07/"+format+"/ref-reads-different", m.brief())
	}
	// round trip through the library
	for _, dirty := range []bool{false, true} {
		got, err := libUnmarshal(enc, m.isReq, first, dirty)
		if err != nil {
			c.violate(cs, "Unmarshal(Marshal(x)) failed: "+err.Error(), "C07/"+format+"/roundtrip-fails", m.brief())
		} else if !eqMsg(got, m) {
			c.violate(cs, fmt.Sprintf("Unmarshal(Marshal(x)) != x (dirty=%v): got %v", dirty, got.brief()), "C07/"+format+"/roundtrip-differs", m.brief())
		}
	}
	// interoperability: reference-encoded bytes decode to the same fields
	ref := refEncode(format, m)
	if got, err := libUnmarshal(enc, m.isReq, ref, false); err != nil {
		c.violate(cs, "library rejects a reference-encoded header: "+err.Error(), "C07/"+format+"/rejects-reference", m.brief())
	} else if !eqMsg(got, m) {
		c.violate(cs, fmt.Sprintf("library reads a reference-encoded header differently: got %v", got.brief()), "C07/"+format+"/reads-reference-differently", m.brief())
	}
	if len(c.samp) < 4 && c.evals%97 == 1 {
		c.samp = append(c.samp, map[string]interface{}{"format": format, "value": m.brief(), "encoded_len": n})
	}
	return first
}

func (c *codecRun) direct(format string) {
	enc := svc.NewEncoder(format)()
	thorough := c.a.Tier == "thorough"
	pick := func(l []int) int { return l[c.rng.Intn(len(l))] }
	small := []int{0, 1, 5, 127, 128, 300}
	var prev []byte
	for _, isReq := range []bool{true, false} {
		// every seq boundary with varied other fields
		for _, s := range seqList {
			for k := 0; k < 3; k++ {
				prev = c.checkDirect(format, enc, c.genMsg(format, isReq, s, pick(upLenList), pick(small), pick(small)), prev)
			}
		}
		// every upgrade length
		for _, u := range upLenList {
			for k := 0; k < 3; k++ {
				prev = c.checkDirect(format, enc, c.genMsg(format, isReq, c.rng.Uint64()>>uint(c.rng.Intn(64)), u, pick(small), pick(small)), prev)
			}
		}
		// every string/body length boundary, each against every boundary of the other (pairwise)
		for _, sl := range lenList {
			for _, bl := range lenList {
				prev = c.checkDirect(format, enc, c.genMsg(format, isReq, c.rng.Uint64()>>uint(c.rng.Intn(64)), pick(upLenList), sl, bl), prev)
			}
		}
		// megabyte boundaries
		bigs := bigLenList
		if !thorough {
			bigs = []int{bigLenList[c.rng.Intn(2)], bigLenList[2+c.rng.Intn(2)]}
		}
		for _, b := range bigs {
			prev = c.checkDirect(format, enc, c.genMsg(format, isReq, 1<<35, 1, 3, b), nil)
			prev = c.checkDirect(format, enc, c.genMsg(format, isReq, 77, 0, b, 9), nil)
		}
		// random values, sizes growing and shrinking
		n := 600
		if thorough {
			n = 30000
		}
		for i := 0; i < n; i++ {
			ln := func() int {
				switch c.rng.Intn(8) {
				case 0:
					return 0
				case 1:
					return pick(lenList)
				case 2:
					return c.rng.Intn(70000)
				}
				return c.rng.Intn(400)
			}
			prev = c.checkDirect(format, enc, c.genMsg(format, isReq, c.rng.Uint64()>>uint(c.rng.Intn(64)), pick(upLenList), ln(), ln()), prev)
		}
	}
}

// upgradeFlags checks the one-byte upgrade packing for all 256 values through
// hook H4 and the reference packing.
func (c *codecRun) upgradeFlags() {
	for b := 0; b < 256; b++ {
		c.evals++
		nr, nresp, hb, st, out := rpc.VerifUpgrade(byte(b))
		f := wire.ParseFlags(byte(b))
		b2i := func(x bool) byte {
			if x {
				return 1
			}
			return 0
		}
		c.sigs[fmt.Sprintf("upgrade/%02x", b&0xf8)] = true
		if nr != b2i(f.NoRequest) || nresp != b2i(f.NoResponse) || hb != b2i(f.Heartbeat) || st != f.Stream {
			c.violate(fmt.Sprintf("upgrade/%02x", b), fmt.Sprintf("upgrade byte %#02x decodes to (%d,%d,%d,%d), documented packing gives %+v", b, nr, nresp, hb, st, f),
				"C07/upgrade/decode", nil)
		}
		if out != byte(b)&0xf8 || out != f.Byte() {
			c.violate(fmt.Sprintf("upgrade/%02x", b), fmt.Sprintf("upgrade byte %#02x re-encodes to %#02x", b, out), "C07/upgrade/roundtrip", nil)
		}
	}
}

func waitFor(cond func() bool, d time.Duration) bool {
	deadline := time.Now().Add(d)
	for i := 0; ; i++ {
		if cond() {
			return true
		}
		if time.Now().After(deadline) {
			return false
		}
		if i < 200 {
			time.Sleep(20 * time.Microsecond)
		} else {
			time.Sleep(time.Millisecond)
		}
	}
}

// viaServer feeds reference-encoded requests to a real ServeCodec loop and
// checks the response frames with the reference decoder (this is the only way
// to reach the built-in default header path, and it covers the pooled
// request/response buffers of the codecs with growing and shrinking sizes).
func (c *codecRun) viaServer(format string, direct bool) {
	led := svc.NewLedger()
	server := rigServer(led, direct)
	sm := memnet.NewScripted(false)
	var enc rpc.Encoder
	if f := svc.NewEncoder(format); f != nil {
		enc = f()
	}
	codec := rpc.NewServerCodec(&rpc.BYTESCodec{}, enc, sm, direct, 0)
	done := make(chan struct{})
	go func() { server.ServeCodec(codec); close(done) }()
	thorough := c.a.Tier == "thorough"
	type tc struct {
		seq              uint64
		fill, rlen, flen int
	}
	var cases []tc
	for _, s := range seqList {
		cases = append(cases, tc{s, c.rng.Intn(300), c.rng.Intn(300), 0})
	}
	lens := append([]int{}, lenList...)
	if thorough {
		lens = append(lens, bigLenList...)
	} else {
		lens = append(lens, bigLenList[c.rng.Intn(len(bigLenList))])
	}
	for _, l := range lens {
		cases = append(cases, tc{uint64(c.rng.Intn(1 << 20)), max(0, l-svc.HeaderLen), 10, 0}) // args of length l
		cases = append(cases, tc{uint64(c.rng.Intn(1 << 20)), 10, max(0, l-svc.IDLen-32), 0})  // reply of length l
		if l > 0 {
			cases = append(cases, tc{uint64(c.rng.Intn(1 << 20)), 10, 10, l}) // error of length l
		}
	}
	nw := 0
	for i, t := range cases {
		c.evals++
		sp := svc.Spec{Run: 7, Conn: 1, Caller: 1, Counter: uint64(i), ReplyLen: uint32(t.rlen), FailLen: uint32(t.flen), Fill: t.fill}
		if format != wire.JSON {
			sp.Flags = svc.FlagRawErr
		}
		args := svc.Build(sp)
		frame := wire.EncodeReq(format, wire.Req{Seq: t.seq, Method: "S.B" + fmt.Sprint(i%4), Args: args})
		cs := fmt.Sprintf("%s/server/direct=%v/seq=%d/args=%d/reply=%d/err=%d", format, direct, t.seq, len(args), t.rlen, t.flen)
		c.sigs[fmt.Sprintf("%s/server/%v/%d/%d/%d", format, direct, len(args), t.rlen, t.flen)] = true
		sm.Push(frame)
		nw++
		if !waitFor(func() bool { return sm.NumWrites() >= nw }, 20*time.Second) {
			mon.Emit(mon.Result{T: "case", Engine: "codec", Case: cs, Verdict: mon.Inconclusive, Prop: "C07", What: "no response frame within 20 s"})
			return
		}
		out := sm.Frame(nw - 1)
		res, err := wire.DecodeRes(format, out, true)
		if err != nil {
			c.violate(cs, "response frame is not in the documented format: "+err.Error(), "C07/"+format+"/server-nonconforming", hex.EncodeToString(out[:min(len(out), 64)]))
			continue
		}
		wantErr, wantReply := "", svc.Reply(args)
		if t.flen > 0 {
			wantErr, wantReply = svc.ErrText(args), nil
		}
		// the reply field of an error response is not constrained by the property
		if res.Seq != t.seq || res.Error != wantErr || (t.flen == 0 && !bytes.Equal(res.Reply, wantReply)) {
			c.violate(cs, fmt.Sprintf("response header fields differ: seq %d (want %d), error %d bytes (want %d, equal=%v), reply %d bytes (want %d)",
				res.Seq, t.seq, len(res.Error), len(wantErr), res.Error == wantErr, len(res.Reply), len(wantReply)), "C07/"+format+"/server-fields", nil)
		}
	}
	// the handler must have seen exactly the args that were encoded
	ex, _, _ := led.Snapshot()
	if len(ex) != len(cases) {
		c.violate(format+"/server/executions", fmt.Sprintf("%d requests delivered, %d handler executions", len(cases), len(ex)), "C07/"+format+"/server-exec-count", nil)
	}
	for _, e := range ex {
		if !e.Known || e.ArgSum != svc.Sum(svc.Build(e.Spec)) {
			c.violate(format+"/server/args", "handler saw arguments different from the encoded ones (id "+e.ID+")", "C07/"+format+"/server-args", nil)
		}
	}
	sm.PushErr(io.EOF)
	<-done
}

func rigServer(led *svc.Ledger, direct bool) *rpc.Server {
	s := rpc.NewServer()
	s.SetLogLevel(rpc.OffLogLevel)
	s.SetDirectIO(direct)
	svc.Register(s, led, 0)
	return s
}

// viaClient lets a real Conn emit request frames (checked with the reference
// decoder) and answers them with reference-encoded responses.
func (c *codecRun) viaClient(format string, direct bool) {
	sm := memnet.NewScripted(false)
	var enc rpc.Encoder
	if f := svc.NewEncoder(format); f != nil {
		enc = f()
	}
	conn := rpc.NewConnWithCodec(rpc.NewClientCodec(&rpc.BYTESCodec{}, enc, sm, 0))
	if direct {
		conn.SetDirectIO(true)
	}
	thorough := c.a.Tier == "thorough"
	lens := append([]int{}, lenList...)
	if thorough {
		lens = append(lens, bigLenList...)
	} else {
		lens = append(lens, bigLenList[c.rng.Intn(len(bigLenList))])
	}
	type tc struct{ mlen, alen, rlen, elen int }
	var cases []tc
	for _, l := range lens {
		cases = append(cases, tc{max(1, l), c.rng.Intn(200), c.rng.Intn(200), 0})
		cases = append(cases, tc{5, l, c.rng.Intn(200), 0})
		cases = append(cases, tc{5, c.rng.Intn(200), l, 0})
		if l > 0 {
			cases = append(cases, tc{5, c.rng.Intn(200), 0, l})
		}
	}
	nw := 0
	for ci, t := range cases {
		c.evals++
		var method string
		if format == wire.JSON {
			method = c.randUTF8(t.mlen)
		} else {
			method = string(c.randBytes(t.mlen))
		}
		args := c.randBytes(t.alen)
		cs := fmt.Sprintf("%s/client/direct=%v/#%d/method=%d/args=%d/reply=%d/err=%d", format, direct, ci, t.mlen, t.alen, t.rlen, t.elen)
		c.sigs[fmt.Sprintf("%s/client/%v/%d/%d/%d/%d", format, direct, t.mlen, t.alen, t.rlen, t.elen)] = true
		var reply []byte
		call := conn.Go(method, &args, &reply, make(chan *rpc.Call, 1))
		if !waitFor(func() bool { return sm.NumWrites() >= nw+1 || len(call.Done) > 0 }, 20*time.Second) {
			mon.Emit(mon.Result{T: "case", Engine: "codec", Case: cs, Verdict: mon.Inconclusive, Prop: "C07", What: "no request frame within 20 s"})
			return
		}
		if sm.NumWrites() < nw+1 {
			// the call completed without a frame having been written: the header could not be encoded
			c.violate(cs, fmt.Sprintf("a request with a %d-byte method and %d-byte body could not be encoded and sent: %v", t.mlen, t.alen, call.Error), "C07/"+format+"/client-cannot-encode", nil)
			continue
		}
		nw++
		i := nw - 1
		out := sm.Frame(i)
		req, err := wire.DecodeReq(format, out, true)
		if err != nil {
			c.violate(cs, "request frame is not in the documented format: "+err.Error(), "C07/"+format+"/client-nonconforming", hex.EncodeToString(out[:min(len(out), 64)]))
		} else if req.Method != method || !bytes.Equal(req.Args, args) || len(req.Upgrade) != 0 {
			c.violate(cs, fmt.Sprintf("request header fields differ: method equal=%v, args equal=%v, upgrade %x", req.Method == method, bytes.Equal(req.Args, args), req.Upgrade),
				"C07/"+format+"/client-fields", nil)
		}
		res := wire.Res{Seq: req.Seq}
		if t.elen > 0 {
			if format == wire.JSON {
				res.Error = c.randUTF8(t.elen)
			} else {
				res.Error = string(c.randBytes(t.elen))
			}
		} else {
			res.Reply = c.randBytes(t.rlen)
		}
		sm.Push(wire.EncodeRes(format, res))
		select {
		case <-call.Done:
		case <-time.After(20 * time.Second):
			mon.Emit(mon.Result{T: "case", Engine: "codec", Case: cs, Verdict: mon.Inconclusive, Prop: "C07", What: "call not completed within 20 s"})
			return
		}
		if t.elen > 0 {
			if call.Error == nil || call.Error.Error() != res.Error {
				c.violate(cs, fmt.Sprintf("error text decoded from a reference-encoded response differs (%d bytes sent)", t.elen), "C07/"+format+"/client-error-text", nil)
			}
		} else if call.Error != nil || !bytes.Equal(reply, res.Reply) {
			c.violate(cs, fmt.Sprintf("reply decoded from a reference-encoded response differs: err=%v, %d bytes vs %d", call.Error, len(reply), len(res.Reply)),
				"C07/"+format+"/client-reply", nil)
		}
	}
	conn.Close()
}

// wireFlags checks the upgrade bytes the client really emits for ping and
// stream operations against the documented packing.
func (c *codecRun) wireFlags(format string) {
	sm := memnet.NewScripted(false)
	var enc rpc.Encoder
	if f := svc.NewEncoder(format); f != nil {
		enc = f()
	}
	conn := rpc.NewConnWithCodec(rpc.NewClientCodec(&rpc.BYTESCodec{}, enc, sm, 0))
	answer := func(i int, want []byte, what string) bool {
		c.evals++
		c.sigs[format+"/wireflags/"+what] = true
		if !waitFor(func() bool { return sm.NumWrites() >= i+1 }, 20*time.Second) {
			mon.Emit(mon.Result{T: "case", Engine: "codec", Case: format + "/wireflags/" + what, Verdict: mon.Inconclusive, Prop: "C07", What: "no frame"})
			return false
		}
		req, err := wire.DecodeReq(format, sm.Frame(i), true)
		if err != nil || !bytes.Equal(req.Upgrade, want) {
			c.violate(format+"/wireflags/"+what, fmt.Sprintf("%s request carries upgrade %x (err %v), documented packing is %x", what, req.Upgrade, err, want), "C07/"+format+"/wireflags/"+what, nil)
		}
		sm.Push(wire.EncodeRes(format, wire.Res{Seq: req.Seq}))
		return true
	}
	res := make(chan error, 1)
	go func() { res <- conn.Ping() }()
	if !answer(0, wire.UpPing, "ping") {
		return
	}
	<-res
	var st rpc.Stream
	go func() { s, err := conn.NewStream("T0.SB"); st = s; res <- err }()
	if !answer(1, wire.UpOpen, "open") {
		return
	}
	if err := <-res; err != nil {
		c.violate(format+"/wireflags/open", "NewStream failed: "+err.Error(), "C07/"+format+"/wireflags/open-fails", nil)
		return
	}
	m := []byte("hello")
	st.WriteMessage(&m)
	c.evals++
	if waitFor(func() bool { return sm.NumWrites() >= 3 }, 20*time.Second) {
		req, err := wire.DecodeReq(format, sm.Frame(2), true)
		if err != nil || !bytes.Equal(req.Upgrade, wire.UpStream) || !bytes.Equal(req.Args, m) {
			c.violate(format+"/wireflags/message", fmt.Sprintf("stream message carries upgrade %x args %q (err %v), documented packing is %x", req.Upgrade, req.Args, err, wire.UpStream), "C07/"+format+"/wireflags/message", nil)
		}
	}
	go func() { res <- st.Close() }()
	if !answer(3, wire.UpClose, "close") {
		return
	}
	<-res
	conn.Close()
}

func codecEngine(a Args) {
	c := &codecRun{a: a, rng: rand.New(rand.NewSource(a.Seed*7919 + 17)), sigs: map[string]bool{}}
	t0 := time.Now()
	for _, f := range []string{wire.PB, wire.Code, wire.JSON} {
		mon.Progress("codec", "direct/"+f)
		c.direct(f)
	}
	mon.Progress("codec", "upgrade")
	c.upgradeFlags()
	for _, f := range wire.Formats {
		for _, direct := range []bool{false, true} {
			mon.Progress("codec", fmt.Sprintf("via/%s/%v", f, direct))
			c.viaServer(f, direct)
			c.viaClient(f, direct)
		}
		c.wireFlags(f)
	}
	sigs := make([]string, 0, len(c.sigs))
	for s := range c.sigs {
		sigs = append(sigs, s)
	}
	sort.Strings(sigs)
	mon.Emit(mon.Result{T: "case", Engine: "codec", Case: "summary", Verdict: mon.Held, N: c.evals, Sigs: sigs,
		Stats:  map[string]int64{"header_values_checked": int64(c.evals), "violations_raw": int64(c.viols), "ms": int64(time.Since(t0) / time.Millisecond)},
		Sample: c.samp})
}
