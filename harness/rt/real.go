package main

import (
	"context"
	"crypto/tls"
	"encoding/json"
	"fmt"
	"math/rand"
	"net"
	"os"
	"path/filepath"
	"runtime"
	"strings"
	"sync/atomic"
	"time"

	"github.com/hslam/rpc"
	"github.com/hslam/socket"
	"verif/harness/mon"
	"verif/harness/rig"
	"verif/harness/scen"
	"verif/harness/svc"
	"verif/harness/wire"
)

// Substrate R: real sockets, real time (DESIGN.md section 2.2).

// rEnv lets the system run in real time; a budget that runs out is reported
// by the caller as inconclusive, never as a violation.
type rEnv struct{}

// realBudget bounds how long a real-time scenario may take before it is
// reported inconclusive (longer in the thorough tier, whose children share the
// machine with race-detector builds).
var realBudget = 30 * time.Second

func (rEnv) Virtual() bool { return false }

func (rEnv) Settle(done func() bool, budget time.Duration) bool {
	if budget > realBudget {
		budget = realBudget
	}
	deadline := time.Now().Add(budget)
	for i := 0; ; i++ {
		if done() {
			return true
		}
		if time.Now().After(deadline) {
			return false
		}
		if i < 100 {
			time.Sleep(50 * time.Microsecond)
		} else {
			time.Sleep(time.Millisecond)
		}
	}
}

var sockSeq int32

// newAddr returns a fresh address for the network.
func newAddr(network string) string {
	switch network {
	case "unix":
		dir := os.Getenv("VT_WORK")
		if dir == "" {
			dir = filepath.Join(os.TempDir(), fmt.Sprintf("verif-rt-%d", os.Getpid()))
		}
		os.MkdirAll(dir, 0o755)
		p := filepath.Join(dir, fmt.Sprintf("s%d", atomic.AddInt32(&sockSeq, 1)))
		os.Remove(p)
		return p
	case "inproc":
		return fmt.Sprintf("inproc-%d-%d", os.Getpid(), atomic.AddInt32(&sockSeq, 1))
	default:
		for i := 0; i < 50; i++ {
			l, err := net.Listen("tcp4", "127.0.0.1:0")
			if err != nil {
				continue
			}
			a := l.Addr().String()
			l.Close()
			return a
		}
		return "127.0.0.1:0"
	}
}

// startReal starts a server on a real network, retrying on address clashes.
func startReal(cfg rig.Config, seed int64) (*rig.Rig, error) {
	var last error
	for try := 0; try < 8; try++ {
		r := rig.Start(cfg, nil, newAddr(cfg.Network), seed)
		// either the listener comes up or ListenWithOptions returns an error
		ok := rEnv{}.Settle(func() bool {
			if ret, _ := r.ListenReturned(); ret {
				return true
			}
			c, err := r.DialOnce()
			if err == nil {
				c.Close()
				return true
			}
			return false
		}, 5*time.Second)
		if ret, err := r.ListenReturned(); ret {
			last = err
			continue
		}
		if ok {
			// Warm-up: the first request on a freshly started netpoll server
			// is occasionally never served when the machine is loaded (the
			// poller of hslam/netpoll drops a readiness event that arrives
			// while the connection is still being registered). That is a
			// dependency's behaviour, outside the properties; do not let it
			// turn scenarios into inconclusive ones.
			c, err := r.DialOnce()
			if err == nil {
				res := make(chan error, 1)
				go func() {
					// a call rather than a Ping: the answer to the first ping of a connection is a zero-length
					// message (sequence number 0, no error, no body), which hslam/websocket does not deliver
					rec := rig.Do(c, rig.FormCall, cfg.Codec, rig.Method(cfg.Codec, 0), svc.Spec{Run: 0xfffffff, Conn: 99, Caller: 99, Counter: 1, ReplyLen: 5}, 0, nil)
					res <- rec.Err
				}()
				select {
				case <-res:
					c.Close()
					return r, nil
				case <-time.After(3 * time.Second):
					c.Close()
					mon.Note("real", "warm-up call on a fresh "+cfg.String()+" server was not answered within 3 s")
					r.Server.Close()
					// No second server in this scenario: once, after such a stalled start, one connection of
					// the following workload was served by the first (closed) server instance of the process
					// (a poll-mode/netpoll effect outside the properties); the scenario is inconclusive instead.
					return nil, fmt.Errorf("warm-up call not answered within 3 s")
				}
			}
			return r, nil
		}
		last = fmt.Errorf("server did not come up")
		r.Server.Close()
	}
	return nil, last
}

// dialByHand builds a client connection by hand, so that the caller keeps the
// message layer (to send a frame below the client library) and the raw
// network connection (to cut the link in the middle of a frame or TLS record).
func dialByHand(cfg rig.Config, r *rig.Rig) (*rpc.Conn, socket.Messages, net.Conn, error) {
	network := "tcp"
	if cfg.Network == "unix" {
		network = "unix"
	}
	raw, err := net.DialTimeout(network, r.Addr, 3*time.Second)
	if err != nil {
		return nil, nil, nil, err
	}
	var rwc net.Conn = raw
	if cfg.TLS {
		tc := tls.Client(raw, rpc.SkipVerifyTLSConfig())
		raw.SetDeadline(time.Now().Add(5 * time.Second))
		if err := tc.Handshake(); err != nil {
			raw.Close()
			return nil, nil, nil, err
		}
		raw.SetDeadline(time.Time{})
		rwc = tc
	}
	msgs := socket.NewMessages(rwc, false)
	var enc rpc.Encoder
	if f := svc.NewEncoder(cfg.Header); f != nil {
		enc = f()
	}
	conn := rpc.NewConnWithCodec(rpc.NewClientCodec(svc.NewCodec(cfg.Codec)(), enc, msgs, 0))
	return conn, msgs, raw, nil
}

func init() {
	engines["pollstream"] = pollStreamEngine
	engines["real"] = realEngine
}

type pollExtra struct {
	N int `json:"n"`
}

// pollStreamEngine: C10 for poll-mode servers. A client opens streams whose
// handlers block in ReadMessage, then disconnects; the handlers must return.
func pollStreamEngine(a Args) {
	var x pollExtra
	json.Unmarshal(a.Extra, &x)
	if x.N < 1 {
		x.N = 20
	}
	for i := 0; i < x.N; i++ {
		// one case at a time, each bounded as a whole: setup steps on a
		// poll-mode server (TLS handshake, first request of a connection) can
		// stall for ever in the dependency; such a case is inconclusive and
		// must not hold the rest of the check
		i := i
		done := make(chan struct{})
		var cs atomic.Value
		cs.Store(fmt.Sprintf("pollstream/%d", i))
		go func() {
			defer close(done)
			pollStreamCase(a, i, &cs)
		}()
		select {
		case <-done:
		case <-time.After(90 * time.Second):
			mon.Emit(mon.Result{T: "case", Engine: "pollstream", Case: cs.Load().(string), Verdict: mon.Inconclusive, What: "the case did not finish within 90 s of real time (a setup step stalled in the poll-mode server)"})
		}
	}
}

type pollOutcome struct {
	err      string // setup problem (inconclusive)
	exited   bool
	probes   int
	running  int // stream handlers running when the client went away
	blockedS int // stream handlers still blocked at the end
	blockedC int // client readers still blocked at the end
}

// pollOnce runs one "client with open streams goes away" scenario.
func pollOnce(cfg rig.Config, i int, seed int64, k int, how string) pollOutcome {
	var o pollOutcome
	r, err := startReal(cfg, seed)
	if err != nil {
		o.err = "server did not start: " + fmt.Sprint(err)
		return o
	}
	defer func() {
		r.Server.Close()
		time.Sleep(5 * time.Millisecond)
	}()
	conn, msgs, raw, err := dialByHand(cfg, r)
	if err != nil {
		o.err = "dial: " + err.Error()
		return o
	}
	var clientBlocked int32
	for s := 0; s < k; s++ {
		st, err := conn.NewStream(svc.StreamMethod(s%2, cfg.Codec))
		if err != nil {
			continue
		}
		box := svc.NewBox(cfg.Codec)
		for p := 0; p < s%2; p++ {
			st.ReadMessage(nil, box.Ptr())
		}
		box.Set(svc.StreamMsg(uint64(i)<<8|uint64(s+1), svc.DirUp, 0, svc.KindEcho, 0, 60))
		st.WriteMessage(box.Ptr())
		st.ReadMessage(nil, box.Ptr())
		atomic.AddInt32(&clientBlocked, 1)
		go func() {
			b := svc.NewBox(cfg.Codec)
			for st.ReadMessage(nil, b.Ptr()) == nil {
			}
			atomic.AddInt32(&clientBlocked, -1)
		}()
	}
	_, o.running = r.Ledger.Running()
	// how the client goes away: an orderly Close; a Close after a frame
	// whose header cannot be decoded (dropped by a correct server, the
	// connection survives it); or the link cut in the middle of a frame /
	// of a TLS record
	switch how {
	case "garbage-frame-then-close":
		msgs.WriteMessage([]byte{0x09, 0x01, 0x02})
		time.Sleep(20 * time.Millisecond)
		conn.Close()
	case "cut-mid-frame":
		if cfg.TLS {
			raw.Write(append([]byte{0x17, 0x03, 0x03, 0x00, 0x64}, make([]byte, 10)...))
		} else {
			raw.Write(wire.AppendFrame(nil, make([]byte, 100))[:14])
		}
		raw.Close()
	default:
		conn.Close()
	}
	// wait for the handlers, probing the server's responsiveness meanwhile
	deadline := time.Now().Add(8 * time.Second)
	for time.Now().Before(deadline) {
		if _, s := r.Ledger.Running(); s == 0 && atomic.LoadInt32(&clientBlocked) == 0 {
			o.exited = true
			break
		}
		// one complete dial+call round trip, bounded as a whole: the TLS
		// handshake or the first request on a fresh netpoll connection is
		// occasionally never served (see startReal); an abandoned probe
		// just does not count
		okc := make(chan bool, 1)
		np := o.probes
		go func() {
			c2, err := rpc.DialWithOptions(r.Addr, r.Options())
			if err != nil {
				okc <- false
				return
			}
			pctx, pcancel := context.WithTimeout(context.Background(), 2*time.Second)
			rec := rig.Do(c2, rig.FormCtx, cfg.Codec, rig.Method(cfg.Codec, 0), svc.Spec{Run: uint32(i), Conn: 7, Caller: 7, Counter: uint64(np)}, 0, &rig.DoOpt{Ctx: pctx})
			pcancel()
			c2.Close()
			okc <- rec.Err == nil
		}()
		select {
		case ok := <-okc:
			if ok {
				o.probes++
			}
		case <-time.After(3 * time.Second):
		}
		time.Sleep(2 * time.Millisecond)
	}
	_, o.blockedS = r.Ledger.Running()
	o.blockedC = int(atomic.LoadInt32(&clientBlocked))
	return o
}

var pollHows = []string{"close", "garbage-frame-then-close", "cut-mid-frame"}

func pollStreamCase(a Args, i int, csv *atomic.Value) {
	rng := rand.New(rand.NewSource(a.Seed*313 + 5 + int64(i)*7919))
	cfg := rig.Config{Network: []string{"tcp", "unix"}[rng.Intn(2)], Header: wire.Formats[rng.Intn(4)], Codec: svc.Codecs[rng.Intn(4)],
		SrvPoll: i%4 != 3, SrvPipelining: rng.Intn(2) == 0, SrvDirect: rng.Intn(2) == 0, Pushes: []int{0, 1}, TLS: rng.Intn(3) == 0}
	k := 1 + rng.Intn(4)
	how := pollHows[rng.Intn(3)]
	if a.Prop == "C12" {
		// C12: the same scenario with and without TLS must end the same way
		cfg.TLS = false
		cs := fmt.Sprintf("pollstream/%d/%s/tls-vs-plain/%s", i, cfg, how)
		if !want(a, cs) {
			return
		}
		csv.Store(cs)
		mon.Progress("pollstream", cs)
		plain := pollOnce(cfg, i, a.Seed, k, how)
		cfg.TLS = true
		withTLS := pollOnce(cfg, i, a.Seed, k, how)
		verdict, what, fsig := mon.Held, "", ""
		switch {
		case plain.err != "" || withTLS.err != "":
			verdict, what = mon.Inconclusive, plain.err+" "+withTLS.err
		case plain.exited && !withTLS.exited && withTLS.probes >= 20:
			verdict = mon.Violated
			what = fmt.Sprintf("the same scenario (%d streams with blocked handlers, client goes away by %s) ends differently with TLS: over the plain network every handler returned, over TLS %d of %d stream handlers are still blocked 8s later while %d dial+call round trips through the same server succeeded [%s]",
				k, how, withTLS.blockedS, withTLS.running, withTLS.probes, cfg)
			fsig = "C12/pollstream/tls-differs/" + how
		case plain.exited != withTLS.exited:
			verdict, what = mon.Inconclusive, fmt.Sprintf("outcomes differ (plain exited=%v, tls exited=%v) but too few probes completed (%d/%d)", plain.exited, withTLS.exited, plain.probes, withTLS.probes)
		}
		mon.Emit(mon.Result{T: "case", Engine: "pollstream", Case: cs, Verdict: verdict, Prop: "C12", What: what, FSig: fsig, Sig: cfg.String() + "/" + how, Nontrivial: true,
			Stats: map[string]int64{"poll_streams": int64(2 * k), "poll_probes": int64(plain.probes + withTLS.probes), "tls_vs_plain_pairs": 1}})
		return
	}
	cs := fmt.Sprintf("pollstream/%d/%s", i, cfg)
	if !want(a, cs) {
		return
	}
	csv.Store(cs)
	mon.Progress("pollstream", cs)
	o := pollOnce(cfg, i, a.Seed, k, how)
	if o.err != "" {
		mon.Emit(mon.Result{T: "case", Engine: "pollstream", Case: cs, Verdict: mon.Inconclusive, What: o.err})
		return
	}
	verdict, what, fsig := mon.Held, "", ""
	if !o.exited {
		if o.probes >= 20 {
			verdict = mon.Violated
			what = fmt.Sprintf("%d of %d stream handlers are still blocked in ReadMessage %v after the client disconnected (%s), while %d complete dial+call round trips through the same server succeeded meanwhile; %d client readers still blocked [%s]",
				o.blockedS, o.running, 8*time.Second, how, o.probes, o.blockedC, cfg)
			fsig = fmt.Sprintf("C10/pollstream/handler-blocked/poll=%v", cfg.SrvPoll)
		} else {
			verdict = mon.Inconclusive
			what = fmt.Sprintf("handlers not exited but only %d probes completed", o.probes)
		}
	}
	mon.Emit(mon.Result{T: "case", Engine: "pollstream", Case: cs, Verdict: verdict, Prop: "C10", What: what, FSig: fsig, Sig: cfg.String(), Nontrivial: true,
		Stats: map[string]int64{"poll_streams": int64(k), "poll_probes": int64(o.probes)}})
}

type realExtra struct {
	Profile string `json:"profile"`
	Poll    int    `json:"poll"` // 0 mixed, 1 always poll
}

func genReal(seed int64, idx int, profile string, poll int) scen.E2E {
	rng := rand.New(rand.NewSource(seed*1000003 + int64(idx)*7919 + int64(len(profile))))
	p := scen.E2E{Profile: profile, Run: uint32(idx + 1), Seed: rng.Int63(), Via: "conn"}
	cfg := rig.Config{Network: []string{"tcp", "unix", "tcp", "unix", "inproc"}[rng.Intn(5)]}
	cfg.Header = wire.Formats[rng.Intn(4)]
	cfg.Codec = svc.Codecs[rng.Intn(4)]
	cfg.SrvPoll = poll == 1 || rng.Intn(3) != 0
	if cfg.Network == "inproc" {
		cfg.SrvPoll = false
	}
	cfg.SrvPipelining = rng.Intn(3) == 0
	cfg.SrvDirect = rng.Intn(3) == 0
	cfg.SrvShared = rng.Intn(4) == 0
	cfg.CliPipelining = rng.Intn(4) == 0
	cfg.CliDirect = rng.Intn(3) == 0
	if cfg.Codec == svc.CodecJSON && rng.Intn(4) == 0 {
		cfg.SrvNoCopy = true
	}
	if rng.Intn(3) == 0 {
		cfg.SrvBuf = []int{64, 512, 4096, 65536, 262144, 3000, 100, 70000}[rng.Intn(8)]
	}
	if rng.Intn(3) == 0 {
		cfg.CliBuf = []int{64, 512, 4096, 65536, 262144, 3000, 100, 70000}[rng.Intn(8)]
	}
	p.Conns = 1 + rng.Intn(4)
	p.Callers = 1 + rng.Intn(8)
	p.NOps = 5 + rng.Intn(25)
	switch profile {
	case "mix":
		if rng.Intn(2) == 0 {
			p.Streams = rng.Intn(3)
		}
		if rng.Intn(10) == 0 {
			p.Callers = 16 + rng.Intn(48)
			p.NOps = 3 + rng.Intn(5)
		}
	case "order":
		cfg.SrvPipelining = true
		cfg.CliPipelining = rng.Intn(3) != 0
		p.Conns = 1 + rng.Intn(6)
		p.NOps = 20 + rng.Intn(300)
		if rng.Intn(2) == 0 {
			// netpoll hands the readiness events of one connection to different
			// goroutines only once many connections exist
			p.Conns = 18 + rng.Intn(24)
			p.NOps = 60 + rng.Intn(200)
		}
		if idx%4 == 1 {
			// nothing is closed; the first request of the first connection is
			// held while a new connection must be served
			p.Hold = true
			p.Conns = 1 + rng.Intn(4)
			p.NOps = 4 + rng.Intn(20)
			cfg.SrvPoll = idx%8 == 1
		}
		if idx%4 == 3 {
			// the client closes its connections in mid-flight
			p.Teardown = true
			p.Conns = 1 + rng.Intn(4)
			p.NOps = 4 + rng.Intn(20)
			cfg.SrvPoll = idx%8 == 7
		}
	case "streams":
		p.Streams = 1 + rng.Intn(6)
		p.Callers = rng.Intn(4)
		p.NOps = 5 + rng.Intn(20)
	case "retain":
		cfg.Codec = []string{svc.CodecBytes, svc.CodecPB, svc.CodecCode}[rng.Intn(3)]
		cfg.SrvNoCopy = false
		p.Streams = rng.Intn(3)
		p.NOps = 20 + rng.Intn(40)
	}
	p.Cfg = cfg
	return p
}

// runRealE2E runs the shared end-to-end scenario on a real network. A
// scenario that does not come back at all within three minutes of real time
// (a stuck Close, a stalled dependency) ends the child: its stacks are saved,
// the case is reported inconclusive and the process exits, so that one stuck
// scenario cannot hold a check for the whole job timeout.
// listening reports, without connecting, whether something listens on addr.
func listening(network, addr string) bool {
	switch network {
	case "unix":
		_, err := os.Stat(addr)
		return err == nil
	case "tcp":
		_, port, err := net.SplitHostPort(addr)
		if err != nil {
			return false
		}
		var pn int
		fmt.Sscanf(port, "%d", &pn)
		b, err := os.ReadFile("/proc/net/tcp")
		if err != nil {
			return false
		}
		want := fmt.Sprintf(":%04X ", pn)
		for _, l := range strings.Split(string(b), "\n") {
			f := strings.Fields(l)
			if len(f) > 3 && strings.HasSuffix(f[1]+" ", want) && f[3] == "0A" {
				return true
			}
		}
	}
	return false
}

// startRealQuiet starts a server and waits for it to listen WITHOUT opening
// a connection to it: the scenario's own connections are the first ones the
// listener ever sees (state shared by all connections of a listener is still
// untouched by any connection teardown).
func startRealQuiet(cfg rig.Config, seed int64) (*rig.Rig, error) {
	for try := 0; try < 8; try++ {
		r := rig.Start(cfg, nil, newAddr(cfg.Network), seed)
		ok := rEnv{}.Settle(func() bool {
			if ret, _ := r.ListenReturned(); ret {
				return true
			}
			return listening(cfg.Network, r.Addr)
		}, 5*time.Second)
		if ret, _ := r.ListenReturned(); ret || !ok {
			r.Server.Close()
			continue
		}
		time.Sleep(30 * time.Millisecond)
		return r, nil
	}
	return nil, fmt.Errorf("server did not come up")
}

func runRealE2E(p scen.E2E) *scen.Outcome {
	res := make(chan *scen.Outcome, 1)
	go func() {
		res <- scen.RunE2EOn(rEnv{}, p, func(cfg rig.Config, seed int64) (*rig.Rig, error) {
			if p.Hold && (cfg.Network == "tcp" || cfg.Network == "unix") {
				return startRealQuiet(cfg, seed)
			}
			return startReal(cfg, seed)
		})
	}()
	select {
	case o := <-res:
		return o
	case <-time.After(3 * time.Minute):
		if dir := os.Getenv("VT_WORK"); dir != "" {
			buf := make([]byte, 1<<22)
			buf = buf[:runtime.Stack(buf, true)]
			os.MkdirAll(dir, 0o755)
			os.WriteFile(fmt.Sprintf("%s/stuck-%d.stacks", dir, p.Run), buf, 0o644)
		}
		mon.Emit(mon.Result{T: "case", Engine: "real", Case: fmt.Sprintf("scenario %d", p.Run), Verdict: mon.Inconclusive,
			What: "scenario did not return within 3 minutes of real time (" + p.String() + "); the remaining cases of this child were not run"})
		mon.Done("real")
		mon.Close()
		os.Exit(0)
		return nil
	}
}

func realEngine(a Args) {
	var x realExtra
	json.Unmarshal(a.Extra, &x)
	if x.Profile == "" {
		x.Profile = "mix"
	}
	for idx := a.From; idx < a.To; idx += a.Stride {
		cs := fmt.Sprintf("real/%s/%d", x.Profile, idx)
		if !want(a, cs) {
			continue
		}
		mon.Progress("real", cs)
		p := genReal(a.Seed, idx, x.Profile, x.Poll)
		o := runRealE2E(p)
		if idx%40 == 0 {
			o.Sample = map[string]interface{}{"scenario": p.String()}
		}
		emitOutcome("real", cs, a, o)
	}
}

// emitOutcome mirrors vt's emit for the real-time engines.
func emitOutcome(engine, cs string, a Args, o *scen.Outcome) {
	if o.Stats == nil {
		o.Stats = map[string]int64{}
	}
	for _, f := range o.Findings {
		if a.Prop == "" || f.Prop == a.Prop {
			mon.Emit(mon.Result{T: "case", Engine: engine, Case: cs, Verdict: mon.Violated, Prop: f.Prop, What: f.What, FSig: f.FSig, Witness: f.Witness})
		} else {
			o.Stats["findings_for_other_properties"]++
		}
	}
	v := mon.Held
	if o.Inconclusive != "" {
		v = mon.Inconclusive
	}
	mon.Emit(mon.Result{T: "case", Engine: engine, Case: cs, Verdict: v, What: o.Inconclusive, Sig: o.Sig, Nontrivial: o.Nontrivial, Stats: o.Stats, Sample: o.Sample})
}
