package main

import (
	"encoding/json"
	"fmt"
	"math/rand"
	"net"
	"os"
	"path/filepath"
	"runtime"
	"sync/atomic"
	"time"

	"github.com/hslam/rpc"
	"verif/harness/mon"
	"verif/harness/rig"
	"verif/harness/scen"
	"verif/harness/svc"
	"verif/harness/wire"
)

// Substrate R: real sockets, real time (DESIGN.md section 2.2).

// rEnv lets the system run in real time; a budget that runs out is reported
// by the caller as inconclusive, never as a violation.
type rEnv struct{}

// realBudget bounds how long a real-time scenario may take before it is
// reported inconclusive (longer in the thorough tier, whose children share the
// machine with race-detector builds).
var realBudget = 30 * time.Second

func (rEnv) Virtual() bool { return false }

func (rEnv) Settle(done func() bool, budget time.Duration) bool {
	if budget > realBudget {
		budget = realBudget
	}
	deadline := time.Now().Add(budget)
	for i := 0; ; i++ {
		if done() {
			return true
		}
		if time.Now().After(deadline) {
			return false
		}
		if i < 100 {
			time.Sleep(50 * time.Microsecond)
		} else {
			time.Sleep(time.Millisecond)
		}
	}
}

var sockSeq int32

// newAddr returns a fresh address for the network.
func newAddr(network string) string {
	switch network {
	case "unix":
		dir := os.Getenv("VT_WORK")
		if dir == "" {
			dir = filepath.Join(os.TempDir(), fmt.Sprintf("verif-rt-%d", os.Getpid()))
		}
		os.MkdirAll(dir, 0o755)
		p := filepath.Join(dir, fmt.Sprintf("s%d", atomic.AddInt32(&sockSeq, 1)))
		os.Remove(p)
		return p
	case "inproc":
		return fmt.Sprintf("inproc-%d-%d", os.Getpid(), atomic.AddInt32(&sockSeq, 1))
	default:
		for i := 0; i < 50; i++ {
			l, err := net.Listen("tcp4", "127.0.0.1:0")
			if err != nil {
				continue
			}
			a := l.Addr().String()
			l.Close()
			return a
		}
		return "127.0.0.1:0"
	}
}

// startReal starts a server on a real network, retrying on address clashes.
func startReal(cfg rig.Config, seed int64) (*rig.Rig, error) {
	var last error
	for try := 0; try < 8; try++ {
		r := rig.Start(cfg, nil, newAddr(cfg.Network), seed)
		// either the listener comes up or ListenWithOptions returns an error
		ok := rEnv{}.Settle(func() bool {
			if ret, _ := r.ListenReturned(); ret {
				return true
			}
			c, err := r.DialOnce()
			if err == nil {
				c.Close()
				return true
			}
			return false
		}, 5*time.Second)
		if ret, err := r.ListenReturned(); ret {
			last = err
			continue
		}
		if ok {
			// Warm-up: the first request on a freshly started netpoll server
			// is occasionally never served when the machine is loaded (the
			// poller of hslam/netpoll drops a readiness event that arrives
			// while the connection is still being registered). That is a
			// dependency's behaviour, outside the properties; do not let it
			// turn scenarios into inconclusive ones.
			c, err := r.DialOnce()
			if err == nil {
				res := make(chan error, 1)
				go func() {
					// a call rather than a Ping: the answer to the first ping of a connection is a zero-length
					// message (sequence number 0, no error, no body), which hslam/websocket does not deliver
					rec := rig.Do(c, rig.FormCall, cfg.Codec, rig.Method(cfg.Codec, 0), svc.Spec{Run: 0xfffffff, Conn: 99, Caller: 99, Counter: 1, ReplyLen: 5}, 0, nil)
					res <- rec.Err
				}()
				select {
				case <-res:
					c.Close()
					return r, nil
				case <-time.After(3 * time.Second):
					c.Close()
					mon.Note("real", "warm-up call on a fresh "+cfg.String()+" server was not answered within 3 s")
					r.Server.Close()
					// No second server in this scenario: once, after such a stalled start, one connection of
					// the following workload was served by the first (closed) server instance of the process
					// (a poll-mode/netpoll effect outside the properties); the scenario is inconclusive instead.
					return nil, fmt.Errorf("warm-up call not answered within 3 s")
				}
			}
			return r, nil
		}
		last = fmt.Errorf("server did not come up")
		r.Server.Close()
	}
	return nil, last
}

func init() {
	engines["pollstream"] = pollStreamEngine
	engines["real"] = realEngine
}

type pollExtra struct {
	N int `json:"n"`
}

// pollStreamEngine: C10 for poll-mode servers. A client opens streams whose
// handlers block in ReadMessage, then disconnects; the handlers must return.
func pollStreamEngine(a Args) {
	var x pollExtra
	json.Unmarshal(a.Extra, &x)
	if x.N < 1 {
		x.N = 20
	}
	rng := rand.New(rand.NewSource(a.Seed*313 + 5))
	for i := 0; i < x.N; i++ {
		cfg := rig.Config{Network: []string{"tcp", "unix"}[rng.Intn(2)], Header: wire.Formats[rng.Intn(4)], Codec: svc.Codecs[rng.Intn(4)],
			SrvPoll: i%4 != 3, SrvPipelining: rng.Intn(2) == 0, SrvDirect: rng.Intn(2) == 0, Pushes: []int{0, 1}}
		cs := fmt.Sprintf("pollstream/%d/%s", i, cfg)
		if !want(a, cs) {
			continue
		}
		mon.Progress("pollstream", cs)
		r, err := startReal(cfg, a.Seed)
		if err != nil {
			mon.Emit(mon.Result{T: "case", Engine: "pollstream", Case: cs, Verdict: mon.Inconclusive, What: "server did not start: " + fmt.Sprint(err)})
			continue
		}
		conn, err := r.Dial()
		if err != nil {
			mon.Emit(mon.Result{T: "case", Engine: "pollstream", Case: cs, Verdict: mon.Inconclusive, What: "dial: " + err.Error()})
			r.Server.Close()
			continue
		}
		k := 1 + rng.Intn(4)
		var clientBlocked int32
		for s := 0; s < k; s++ {
			st, err := conn.NewStream(svc.StreamMethod(s%2, cfg.Codec))
			if err != nil {
				continue
			}
			box := svc.NewBox(cfg.Codec)
			for p := 0; p < s%2; p++ {
				st.ReadMessage(nil, box.Ptr())
			}
			box.Set(svc.StreamMsg(uint64(i)<<8|uint64(s+1), svc.DirUp, 0, svc.KindEcho, 0, 60))
			st.WriteMessage(box.Ptr())
			st.ReadMessage(nil, box.Ptr())
			atomic.AddInt32(&clientBlocked, 1)
			go func() {
				b := svc.NewBox(cfg.Codec)
				for st.ReadMessage(nil, b.Ptr()) == nil {
				}
				atomic.AddInt32(&clientBlocked, -1)
			}()
		}
		_, running := r.Ledger.Running()
		how := []string{"close", "close-after-write"}[rng.Intn(2)]
		conn.Close()
		// wait for the handlers, probing the server's responsiveness meanwhile
		probes := 0
		deadline := time.Now().Add(8 * time.Second)
		exited := false
		for time.Now().Before(deadline) {
			if _, s := r.Ledger.Running(); s == 0 && atomic.LoadInt32(&clientBlocked) == 0 {
				exited = true
				break
			}
			if c2, err := rpc.DialWithOptions(r.Addr, r.Options()); err == nil {
				rec := rig.Do(c2, rig.FormCall, cfg.Codec, rig.Method(cfg.Codec, 0), svc.Spec{Run: uint32(i), Conn: 7, Caller: 7, Counter: uint64(probes)}, 0, nil)
				if rec.Err == nil {
					probes++
				}
				c2.Close()
			}
			time.Sleep(2 * time.Millisecond)
		}
		verdict, what, fsig := mon.Held, "", ""
		if !exited {
			_, s := r.Ledger.Running()
			if probes >= 20 {
				verdict = mon.Violated
				what = fmt.Sprintf("%d of %d stream handlers are still blocked in ReadMessage %v after the client disconnected (%s), while %d complete dial+call round trips through the same server succeeded meanwhile; %d client readers still blocked [%s]",
					s, running, 8*time.Second, how, probes, atomic.LoadInt32(&clientBlocked), cfg)
				fsig = fmt.Sprintf("C10/pollstream/handler-blocked/poll=%v", cfg.SrvPoll)
			} else {
				verdict = mon.Inconclusive
				what = fmt.Sprintf("handlers not exited but only %d probes completed", probes)
			}
		}
		mon.Emit(mon.Result{T: "case", Engine: "pollstream", Case: cs, Verdict: verdict, Prop: "C10", What: what, FSig: fsig, Sig: cfg.String(), Nontrivial: true,
			Stats: map[string]int64{"poll_streams": int64(k), "poll_probes": int64(probes)}})
		r.Server.Close()
		time.Sleep(5 * time.Millisecond)
	}
}

type realExtra struct {
	Profile string `json:"profile"`
	Poll    int    `json:"poll"` // 0 mixed, 1 always poll
}

func genReal(seed int64, idx int, profile string, poll int) scen.E2E {
	rng := rand.New(rand.NewSource(seed*1000003 + int64(idx)*7919 + int64(len(profile))))
	p := scen.E2E{Profile: profile, Run: uint32(idx + 1), Seed: rng.Int63(), Via: "conn"}
	cfg := rig.Config{Network: []string{"tcp", "unix", "tcp", "unix", "inproc"}[rng.Intn(5)]}
	cfg.Header = wire.Formats[rng.Intn(4)]
	cfg.Codec = svc.Codecs[rng.Intn(4)]
	cfg.SrvPoll = poll == 1 || rng.Intn(3) != 0
	if cfg.Network == "inproc" {
		cfg.SrvPoll = false
	}
	cfg.SrvPipelining = rng.Intn(3) == 0
	cfg.SrvDirect = rng.Intn(3) == 0
	cfg.SrvShared = rng.Intn(4) == 0
	cfg.CliPipelining = rng.Intn(4) == 0
	cfg.CliDirect = rng.Intn(3) == 0
	if cfg.Codec == svc.CodecJSON && rng.Intn(4) == 0 {
		cfg.SrvNoCopy = true
	}
	if rng.Intn(3) == 0 {
		cfg.SrvBuf = []int{64, 512, 4096, 65536, 262144, 3000, 100, 70000}[rng.Intn(8)]
	}
	if rng.Intn(3) == 0 {
		cfg.CliBuf = []int{64, 512, 4096, 65536, 262144, 3000, 100, 70000}[rng.Intn(8)]
	}
	p.Conns = 1 + rng.Intn(4)
	p.Callers = 1 + rng.Intn(8)
	p.NOps = 5 + rng.Intn(25)
	switch profile {
	case "mix":
		if rng.Intn(2) == 0 {
			p.Streams = rng.Intn(3)
		}
		if rng.Intn(10) == 0 {
			p.Callers = 16 + rng.Intn(48)
			p.NOps = 3 + rng.Intn(5)
		}
	case "order":
		cfg.SrvPipelining = true
		cfg.CliPipelining = rng.Intn(3) != 0
		p.Conns = 1 + rng.Intn(6)
		p.NOps = 20 + rng.Intn(300)
		if rng.Intn(2) == 0 {
			// netpoll hands the readiness events of one connection to different
			// goroutines only once many connections exist
			p.Conns = 18 + rng.Intn(24)
			p.NOps = 60 + rng.Intn(200)
		}
		if idx%4 == 3 {
			// the client closes its connections in mid-flight
			p.Teardown = true
			p.Conns = 1 + rng.Intn(4)
			p.NOps = 4 + rng.Intn(20)
			cfg.SrvPoll = idx%8 == 7
		}
	case "streams":
		p.Streams = 1 + rng.Intn(6)
		p.Callers = rng.Intn(4)
		p.NOps = 5 + rng.Intn(20)
	case "retain":
		cfg.Codec = []string{svc.CodecBytes, svc.CodecPB, svc.CodecCode}[rng.Intn(3)]
		cfg.SrvNoCopy = false
		p.Streams = rng.Intn(3)
		p.NOps = 20 + rng.Intn(40)
	}
	p.Cfg = cfg
	return p
}

// runRealE2E runs the shared end-to-end scenario on a real network. A
// scenario that does not come back at all within three minutes of real time
// (a stuck Close, a stalled dependency) ends the child: its stacks are saved,
// the case is reported inconclusive and the process exits, so that one stuck
// scenario cannot hold a check for the whole job timeout.
func runRealE2E(p scen.E2E) *scen.Outcome {
	res := make(chan *scen.Outcome, 1)
	go func() {
		res <- scen.RunE2EOn(rEnv{}, p, func(cfg rig.Config, seed int64) (*rig.Rig, error) { return startReal(cfg, seed) })
	}()
	select {
	case o := <-res:
		return o
	case <-time.After(3 * time.Minute):
		if dir := os.Getenv("VT_WORK"); dir != "" {
			buf := make([]byte, 1<<22)
			buf = buf[:runtime.Stack(buf, true)]
			os.MkdirAll(dir, 0o755)
			os.WriteFile(fmt.Sprintf("%s/stuck-%d.stacks", dir, p.Run), buf, 0o644)
		}
		mon.Emit(mon.Result{T: "case", Engine: "real", Case: fmt.Sprintf("scenario %d", p.Run), Verdict: mon.Inconclusive,
			What: "scenario did not return within 3 minutes of real time (" + p.String() + "); the remaining cases of this child were not run"})
		mon.Done("real")
		mon.Close()
		os.Exit(0)
		return nil
	}
}

func realEngine(a Args) {
	var x realExtra
	json.Unmarshal(a.Extra, &x)
	if x.Profile == "" {
		x.Profile = "mix"
	}
	for idx := a.From; idx < a.To; idx += a.Stride {
		cs := fmt.Sprintf("real/%s/%d", x.Profile, idx)
		if !want(a, cs) {
			continue
		}
		mon.Progress("real", cs)
		p := genReal(a.Seed, idx, x.Profile, x.Poll)
		o := runRealE2E(p)
		if idx%40 == 0 {
			o.Sample = map[string]interface{}{"scenario": p.String()}
		}
		emitOutcome("real", cs, a, o)
	}
}

// emitOutcome mirrors vt's emit for the real-time engines.
func emitOutcome(engine, cs string, a Args, o *scen.Outcome) {
	if o.Stats == nil {
		o.Stats = map[string]int64{}
	}
	for _, f := range o.Findings {
		if a.Prop == "" || f.Prop == a.Prop {
			mon.Emit(mon.Result{T: "case", Engine: engine, Case: cs, Verdict: mon.Violated, Prop: f.Prop, What: f.What, FSig: f.FSig, Witness: f.Witness})
		} else {
			o.Stats["findings_for_other_properties"]++
		}
	}
	v := mon.Held
	if o.Inconclusive != "" {
		v = mon.Inconclusive
	}
	mon.Emit(mon.Result{T: "case", Engine: engine, Case: cs, Verdict: v, What: o.Inconclusive, Sig: o.Sig, Nontrivial: o.Nontrivial, Stats: o.Stats, Sample: o.Sample})
}
