package main

import (
	"bufio"
	"bytes"
	"encoding/hex"
	"encoding/json"
	"fmt"
	"io"
	"math/rand"
	"net"
	"os"
	"os/exec"
	"strings"
	"sync"
	"sync/atomic"
	"time"

	"github.com/hslam/rpc"
	"verif/harness/memnet"
	"verif/harness/mon"
	"verif/harness/svc"
	"verif/harness/wire"
)

// Engine "hostile" decides C08 (crash sentinel, monitor M9). The supervisor
// (this process) runs workers (the same binary with engine "hostile-worker");
// a worker logs every input before delivering it, so when it dies the input
// that killed it is known; the supervisor records it and restarts the worker
// behind that input.

func init() {
	engines["hostile"] = hostileSupervisor
	engines["hostile-worker"] = hostileWorker
}

type hostileExtra struct {
	Side   string `json:"side"`   // "server" or "client"
	Hdr    string `json:"hdr"`    // header format
	Mode   int    `json:"mode"`   // server: 0 multiplexing 1 pipelining 2 direct; client: 0 plain 1 pipelining 2 direct
	Full   bool   `json:"full"`   // thorough: all 255 corruptions, more random frames
	Skip   int    `json:"skip"`   // worker: first input index to run
	Bursts int    `json:"bursts"` // number of burst+disconnect repetitions
	Poll   bool   `json:"poll"`   // server side: a real poll-mode (netpoll) server on loopback TCP instead of ServeCodec
	Limit  int    `json:"limit"`  // worker: stop before this input index (0 = none)
	Slow   bool   `json:"slow"`   // worker: settle and probe after every input (pinpointing)
}

type hinput struct {
	fam   string
	frame []byte
}

// corpus returns valid request frames for the format.
func reqCorpus(hdr string) []hinput {
	pay := func(i int, fill int) []byte {
		return svc.Build(svc.Spec{Run: 8, Conn: 9, Caller: 9, Counter: uint64(i), Fill: fill, ReplyLen: 17})
	}
	var out []hinput
	add := func(name string, r wire.Req) {
		out = append(out, hinput{"corpus/" + name, wire.EncodeReq(hdr, r)})
	}
	for sh := 0; sh < 4; sh++ {
		add(fmt.Sprintf("unary-shape%d", sh), wire.Req{Seq: uint64(10 + sh), Method: fmt.Sprintf("S.B%d", sh), Args: pay(sh, 20)})
	}
	add("unary-seq0", wire.Req{Seq: 0, Method: "S.B0", Args: pay(4, 0)})
	add("unary-bigseq", wire.Req{Seq: 1<<63 + 5, Method: "S.B0", Args: pay(5, 3)})
	add("unary-failing", wire.Req{Seq: 20, Method: "S.B0", Args: svc.Build(svc.Spec{Run: 8, Conn: 9, Caller: 9, Counter: 6, FailLen: 30})})
	add("ping", wire.Req{Seq: 21, Upgrade: wire.UpPing})
	add("open-known", wire.Req{Seq: 22, Upgrade: wire.UpOpen, Method: "T0.SB"})
	add("message-known", wire.Req{Seq: 22, Upgrade: wire.UpStream, Args: svc.StreamMsg(5, svc.DirUp, 0, svc.KindEcho, 0, 40)})
	add("close-known", wire.Req{Seq: 22, Upgrade: wire.UpClose})
	add("message-unknown", wire.Req{Seq: 999, Upgrade: wire.UpStream, Args: []byte("stream message for nobody")})
	add("close-unknown", wire.Req{Seq: 998, Upgrade: wire.UpClose})
	add("open-unknown-method", wire.Req{Seq: 23, Upgrade: wire.UpOpen, Method: "T0.Nope"})
	add("open-unary-method", wire.Req{Seq: 24, Upgrade: wire.UpOpen, Method: "S.B0"})
	add("unknown-method", wire.Req{Seq: 25, Method: "S.Nope", Args: pay(7, 5)})
	add("empty-method", wire.Req{Seq: 26, Args: pay(8, 5)})
	add("stream-method-as-unary", wire.Req{Seq: 27, Method: "T0.SB", Args: pay(9, 5)})
	add("not-a-payload", wire.Req{Seq: 28, Method: "S.B0", Args: []byte("garbage body")})
	add("empty-body", wire.Req{Seq: 29, Method: "S.B1"})
	add("body-70k", wire.Req{Seq: 30, Method: "S.B2", Args: pay(10, 70000)})
	add("upgrade-2-bytes", wire.Req{Seq: 31, Upgrade: []byte{0, 0}, Method: "S.B0", Args: pay(11, 1)})
	return out
}

func resCorpus(hdr string, seqs []uint64, streamSeq uint64) []hinput {
	var out []hinput
	add := func(name string, r wire.Res) {
		out = append(out, hinput{"corpus/" + name, wire.EncodeRes(hdr, r)})
	}
	for i, s := range seqs {
		add(fmt.Sprintf("reply-%d", i), wire.Res{Seq: s, Reply: bytes.Repeat([]byte{byte(i)}, 30+i)})
	}
	add("error", wire.Res{Seq: seqs[0], Error: "some error"})
	add("error-and-body", wire.Res{Seq: seqs[0], Error: "some error", Reply: []byte("body too")})
	add("shutdown-text", wire.Res{Seq: seqs[0], Error: "The connection is shut down"})
	add("unknown-seq", wire.Res{Seq: 4242, Reply: []byte("nobody asked")})
	add("empty", wire.Res{})
	add("stream-message", wire.Res{Seq: streamSeq, Reply: svc.StreamMsg(1, svc.DirDown, 0, 0, 0, 60)})
	add("stream-error", wire.Res{Seq: streamSeq, Error: "stream error"})
	add("stream-empty", wire.Res{Seq: streamSeq})
	add("big", wire.Res{Seq: seqs[0], Reply: bytes.Repeat([]byte{7}, 70000)})
	return out
}

// mutate derives the hostile families from a corpus.
func mutate(hdr string, corpus []hinput, full bool, rng *rand.Rand, isReq bool) []hinput {
	out := append([]hinput(nil), corpus...)
	if isReq {
		// (2) all 256 upgrade bytes x method kind x body kind
		body := svc.Build(svc.Spec{Run: 8, Conn: 9, Caller: 9, Counter: 77, Fill: 9})
		for b := 0; b < 256; b++ {
			for mi, m := range []string{"S.B0", "T0.SB", "S.Nope", ""} {
				for bi, a := range [][]byte{body, []byte("zz"), nil} {
					out = append(out, hinput{fmt.Sprintf("upgrade/%02x/m%d/b%d", b, mi, bi),
						wire.EncodeReq(hdr, wire.Req{Seq: uint64(300 + b), Upgrade: []byte{byte(b)}, Method: m, Args: a})})
				}
			}
		}
	}
	for ci, c := range corpus {
		f := c.frame
		if len(f) > 400 {
			// big frames: truncations and corruptions of the first 80 bytes only
			for n := 0; n < 80; n++ {
				out = append(out, hinput{fmt.Sprintf("trunc/%d/%d", ci, n), append([]byte(nil), f[:n]...)})
			}
			out = append(out, hinput{fmt.Sprintf("trunc/%d/%d", ci, len(f)-1), append([]byte(nil), f[:len(f)-1]...)})
			for pos := 0; pos < 80; pos++ {
				for _, v := range []byte{0x00, 0x7f, 0x80, 0xff} {
					g := append([]byte(nil), f...)
					g[pos] = v
					out = append(out, hinput{fmt.Sprintf("corrupt/%d/%d/%02x", ci, pos, v), g})
				}
			}
			continue
		}
		// (3) every truncation
		for n := 0; n < len(f); n++ {
			out = append(out, hinput{fmt.Sprintf("trunc/%d/%d", ci, n), append([]byte(nil), f[:n]...)})
		}
		// (4) single-byte corruptions
		for pos := 0; pos < len(f); pos++ {
			var vals []byte
			if full && len(f) <= 64 {
				for v := 0; v < 256; v++ {
					if byte(v) != f[pos] {
						vals = append(vals, byte(v))
					}
				}
			} else {
				for bit := 0; bit < 8; bit++ {
					vals = append(vals, f[pos]^(1<<uint(bit)))
				}
				for _, v := range []byte{0x00, 0x7f, 0x80, 0xff} {
					if v != f[pos] {
						vals = append(vals, v)
					}
				}
			}
			for _, v := range vals {
				g := append([]byte(nil), f...)
				g[pos] = v
				out = append(out, hinput{fmt.Sprintf("corrupt/%d/%d/%02x", ci, pos, v), g})
			}
		}
	}
	// (5) random frames and multi-byte mutations
	n := 1500
	if full {
		n = 40000
	}
	for i := 0; i < n; i++ {
		switch rng.Intn(3) {
		case 0:
			g := make([]byte, rng.Intn(40))
			rng.Read(g)
			out = append(out, hinput{fmt.Sprintf("random/%d", i), g})
		default:
			f := corpus[rng.Intn(len(corpus))].frame
			if len(f) > 400 {
				f = f[:200]
			}
			g := append([]byte(nil), f...)
			for k := 0; k < 1+rng.Intn(4) && len(g) > 0; k++ {
				switch rng.Intn(4) {
				case 0:
					g[rng.Intn(len(g))] = byte(rng.Intn(256))
				case 1:
					p := rng.Intn(len(g))
					g = append(g[:p], g[min(len(g), p+1+rng.Intn(3)):]...)
				case 2:
					p := rng.Intn(len(g) + 1)
					ins := make([]byte, 1+rng.Intn(3))
					rng.Read(ins)
					g = append(g[:p], append(ins, g[p:]...)...)
				case 3:
					p := rng.Intn(len(g))
					g[p] |= 0x80
				}
			}
			out = append(out, hinput{fmt.Sprintf("mutated/%d", i), g})
		}
	}
	return out
}

func newHostileServer(mode int) (*rpc.Server, *svc.Ledger) {
	led := svc.NewLedger()
	led.Sleep = func(d time.Duration) { time.Sleep(min(d, 2*time.Millisecond)) }
	s := rpc.NewServer()
	s.SetLogLevel(rpc.OffLogLevel)
	switch mode {
	case 1:
		s.SetPipelining(true)
	case 2:
		s.SetDirectIO(true)
	}
	svc.Register(s, led, 0, 1)
	return s, led
}

// srvConn is one client connection to the server under test: either a
// Scripted socket.Messages served by ServeCodec, or a raw TCP connection to a
// real (poll-mode) listener on which frames are written with their length
// prefix.
type srvConn struct {
	sm   *memnet.Scripted
	done chan struct{}
	n    int
	// raw TCP variant
	tc     net.Conn
	mu     sync.Mutex
	frames [][]byte
}

func serveScripted(server *rpc.Server, hdr string, direct bool) *srvConn {
	sm := memnet.NewScripted(false)
	var enc rpc.Encoder
	if f := svc.NewEncoder(hdr); f != nil {
		enc = f()
	}
	c := &srvConn{sm: sm, done: make(chan struct{})}
	codec := rpc.NewServerCodec(&rpc.BYTESCodec{}, enc, sm, direct, 0)
	go func() { server.ServeCodec(codec); close(c.done) }()
	return c
}

func dialRaw(addr string) *srvConn {
	var tc net.Conn
	var err error
	for i := 0; i < 200; i++ {
		if tc, err = net.Dial("tcp", addr); err == nil {
			break
		}
		time.Sleep(5 * time.Millisecond)
	}
	c := &srvConn{done: make(chan struct{}), tc: tc}
	if tc == nil {
		close(c.done)
		return c
	}
	go func() {
		defer close(c.done)
		var buf []byte
		tmp := make([]byte, 65536)
		for {
			n, err := tc.Read(tmp)
			if n > 0 {
				buf = append(buf, tmp[:n]...)
				fs, used := wire.SplitFrames(buf)
				c.mu.Lock()
				for _, f := range fs {
					c.frames = append(c.frames, append([]byte(nil), f.Payload...))
				}
				c.mu.Unlock()
				buf = append([]byte(nil), buf[used:]...)
			}
			if err != nil {
				return
			}
		}
	}()
	return c
}

func (c *srvConn) push(frame []byte) {
	if c.sm != nil {
		c.sm.Push(frame)
		return
	}
	if c.tc != nil {
		c.tc.SetWriteDeadline(time.Now().Add(5 * time.Second))
		c.tc.Write(wire.AppendFrame(nil, frame))
	}
}

func (c *srvConn) end(reset bool) {
	if c.sm != nil {
		if reset {
			c.sm.PushErr(fmt.Errorf("connection reset by peer"))
		} else {
			c.sm.PushErr(io.EOF)
		}
		return
	}
	if c.tc != nil {
		if t, ok := c.tc.(*net.TCPConn); ok && reset {
			t.SetLinger(0)
		}
		c.tc.Close()
	}
}

func (c *srvConn) written() [][]byte {
	if c.sm != nil {
		ws := c.sm.Writes()
		out := make([][]byte, len(ws))
		for i, w := range ws {
			out[i] = w.Frame
		}
		return out
	}
	c.mu.Lock()
	defer c.mu.Unlock()
	return append([][]byte(nil), c.frames...)
}

// probe sends a well-formed request and waits for the right response.
func (c *srvConn) probe(hdr string, n int) string {
	c.n++
	seq := uint64(5_000_000 + c.n)
	args := svc.Build(svc.Spec{Run: 8, Conn: 1, Caller: 1, Counter: uint64(n), ReplyLen: 11})
	c.push(wire.EncodeReq(hdr, wire.Req{Seq: seq, Method: "S.B0", Args: args}))
	want := svc.Reply(args)
	find := func() (wire.Res, bool) {
		ws := c.written()
		for i := len(ws) - 1; i >= 0 && i >= len(ws)-256; i-- {
			r, err := wire.DecodeRes(hdr, ws[i], false)
			if err == nil && r.Seq == seq {
				return r, true
			}
		}
		return wire.Res{}, false
	}
	if !waitFor(func() bool { _, ok := find(); return ok }, 6*time.Second) {
		return "no response to a well-formed probe within 6 s"
	}
	r, _ := find()
	if r.Error != "" || !bytes.Equal(r.Reply, want) {
		return fmt.Sprintf("probe answered wrongly: error %q, reply %d bytes (want %d)", r.Error, len(r.Reply), len(want))
	}
	return ""
}

func hostileWorker(a Args) {
	var x hostileExtra
	json.Unmarshal(a.Extra, &x)
	rng := rand.New(rand.NewSource(a.Seed*31 + int64(len(x.Hdr)) + int64(x.Mode)))
	if x.Side == "client" {
		hostileClientWorker(a, x, rng)
		return
	}
	inputs := mutate(x.Hdr, reqCorpus(x.Hdr), x.Full, rng, true)
	server, _ := newHostileServer(x.Mode)
	newConn := func() *srvConn { return serveScripted(server, x.Hdr, x.Mode == 2) }
	if x.Poll {
		server.SetPoll(true)
		addr := newAddr("tcp")
		opts := &rpc.Options{Network: "tcp", NewCodec: func() rpc.Codec { return &rpc.BYTESCodec{} }, NewHeaderEncoder: svc.NewEncoder(x.Hdr)}
		go server.ListenWithOptions(addr, opts)
		newConn = func() *srvConn { return dialRaw(addr) }
		time.Sleep(50 * time.Millisecond)
		// warm-up (see startReal)
		for i := 0; i < 5; i++ {
			w := newConn()
			if w.probe(x.Hdr, 0) == "" {
				w.end(false)
				break
			}
			w.end(false)
		}
	}
	healthy := newConn()
	cur := newConn()
	inBatch := 0
	fams := map[string]int{}
	problems := 0
	for i := x.Skip; i < len(inputs) && (x.Limit == 0 || i < x.Limit); i++ {
		in := inputs[i]
		mon.Progress("hostile-worker", fmt.Sprintf("%d %s %s", i, in.fam, hex.EncodeToString(in.frame[:min(len(in.frame), 96)])))
		cur.push(in.frame)
		fams[strings.SplitN(in.fam, "/", 2)[0]]++
		inBatch++
		if x.Slow {
			time.Sleep(3 * time.Millisecond)
			healthy.probe(x.Hdr, i)
			time.Sleep(2 * time.Millisecond)
		}
		if inBatch%8 == 0 || strings.HasPrefix(in.fam, "corpus") {
			p := cur.probe(x.Hdr, i)
			if p != "" {
				// Reproduce before judging: the same frame on a fresh connection,
				// then the probe again (a poll-mode server occasionally stalls a
				// connection by itself, see DESIGN.md 12.2 on hslam/netpoll).
				cur.end(false)
				cur = newConn()
				inBatch = 0
				cur.push(in.frame)
				if p2 := cur.probe(x.Hdr, i); p2 == "" {
					fams["probe_failures_not_reproduced"]++
					p = ""
				}
			}
			if p != "" && problems < 20 {
				problems++
				mon.Emit(mon.Result{T: "case", Engine: "hostile", Case: fmt.Sprintf("server/%s/mode%d/%s", x.Hdr, x.Mode, in.fam), Verdict: mon.Violated, Prop: "C08",
					What: fmt.Sprintf("after hostile frame #%d (%s) on the same connection: %s", i, in.fam, p), FSig: "C08/server/same-conn-probe/" + x.Hdr,
					Witness: map[string]string{"frame": hex.EncodeToString(in.frame[:min(len(in.frame), 200)])}})
				// the connection may legitimately be wedged by a hostile frame; move on
				cur.end(false)
				cur = newConn()
				inBatch = 0
			}
		}
		if problems >= 4 {
			mon.Note("hostile-worker", "well-formed probes keep failing; the remaining inputs of this configuration are not delivered")
			break
		}
		if inBatch >= 160 {
			if p := healthy.probe(x.Hdr, i); p != "" && problems < 20 {
				problems++
				mon.Emit(mon.Result{T: "case", Engine: "hostile", Case: fmt.Sprintf("server/%s/mode%d/%s", x.Hdr, x.Mode, in.fam), Verdict: mon.Violated, Prop: "C08",
					What: fmt.Sprintf("after hostile frames up to #%d: healthy connection: %s", i, p), FSig: "C08/server/other-conn-probe/" + x.Hdr})
			}
			cur.end(false)
			select {
			case <-cur.done:
			case <-time.After(20 * time.Second):
				// stream handlers opened by hostile frames keep ServeCodec's tail waiting only if unary handlers hang
			}
			cur = newConn()
			inBatch = 0
		}
	}
	if problems < 4 {
		healthy.probe(x.Hdr, 0)
	}
	if x.Limit > 0 || problems >= 4 {
		time.Sleep(20 * time.Millisecond)
		return
	}
	// bursts of well-formed requests followed at once by a disconnect
	for b := 0; b < x.Bursts; b++ {
		mon.Progress("hostile-worker", fmt.Sprintf("%d burst/%d", len(inputs)+b, b))
		c := newConn()
		n := 1 + rng.Intn(64)
		for k := 0; k < n; k++ {
			sp := svc.Spec{Run: 8, Conn: 2, Caller: uint32(b), Counter: uint64(k), DelayUs: uint32(rng.Intn(3) * rng.Intn(300)), Fill: rng.Intn(200)}
			switch rng.Intn(12) {
			case 0:
				c.push(wire.EncodeReq(x.Hdr, wire.Req{Seq: uint64(k), Upgrade: wire.UpOpen, Method: "T1.SB"}))
			case 1:
				c.push(wire.EncodeReq(x.Hdr, wire.Req{Seq: uint64(k), Upgrade: wire.UpPing}))
			default:
				c.push(wire.EncodeReq(x.Hdr, wire.Req{Seq: uint64(k), Method: fmt.Sprintf("S.B%d", k%4), Args: svc.Build(sp)}))
			}
		}
		c.end(rng.Intn(2) == 0)
		fams["burst"]++
		if b%16 == 15 {
			if p := healthy.probe(x.Hdr, b); p != "" && problems < 20 {
				problems++
				mon.Emit(mon.Result{T: "case", Engine: "hostile", Case: fmt.Sprintf("server/%s/mode%d/burst", x.Hdr, x.Mode), Verdict: mon.Violated, Prop: "C08",
					What: "after burst+disconnect: healthy connection: " + p, FSig: "C08/server/other-conn-probe/" + x.Hdr})
			}
		}
	}
	time.Sleep(50 * time.Millisecond)
	st := map[string]int64{}
	for k, v := range fams {
		st["frames_"+k] = int64(v)
	}
	mon.Emit(mon.Result{T: "case", Engine: "hostile-worker", Case: "worker-summary", Verdict: mon.Held, Stats: st, N: len(inputs) - x.Skip + x.Bursts})
}

func hostileClientWorker(a Args, x hostileExtra, rng *rand.Rand) {
	var enc rpc.Encoder
	if f := svc.NewEncoder(x.Hdr); f != nil {
		enc = f()
	}
	type cli struct {
		sm       *memnet.Scripted
		conn     *rpc.Conn
		seqs     []uint64
		stSeq    uint64
		returned int32
	}
	setup := func() *cli {
		c := &cli{sm: memnet.NewScripted(false)}
		c.conn = rpc.NewConnWithCodec(rpc.NewClientCodec(&rpc.BYTESCodec{}, enc, c.sm, 0))
		switch x.Mode {
		case 1:
			c.conn.SetPipelining(true)
		case 2:
			c.conn.SetDirectIO(true)
		}
		// outstanding: three Go calls, a ping, a stream open (acknowledged), a blocked stream read
		for i := 0; i < 3; i++ {
			args := svc.Build(svc.Spec{Run: 8, Conn: 3, Caller: 1, Counter: uint64(i)})
			var reply []byte
			c.conn.Go("S.B0", &args, &reply, make(chan *rpc.Call, 4))
		}
		go func() { c.conn.Ping(); atomic.AddInt32(&c.returned, 1) }()
		go func() {
			st, err := c.conn.NewStream("T0.SB")
			if err == nil {
				var m []byte
				for st.ReadMessage(nil, &m) == nil {
				}
			}
			atomic.AddInt32(&c.returned, 1)
		}()
		waitFor(func() bool { return c.sm.NumWrites() >= 5 }, 5*time.Second)
		for i := 0; i < c.sm.NumWrites(); i++ {
			r, err := wire.DecodeReq(x.Hdr, c.sm.Frame(i), false)
			if err != nil {
				continue
			}
			if len(r.Upgrade) == 1 && wire.ParseFlags(r.Upgrade[0]).Stream == 1 {
				c.stSeq = r.Seq
				c.sm.Push(wire.EncodeRes(x.Hdr, wire.Res{Seq: r.Seq})) // acknowledge the stream
			} else if len(r.Upgrade) == 0 {
				c.seqs = append(c.seqs, r.Seq)
			}
		}
		if len(c.seqs) == 0 {
			c.seqs = []uint64{0}
		}
		return c
	}
	c := setup()
	inputs := mutate(x.Hdr, resCorpus(x.Hdr, c.seqs, c.stSeq), x.Full, rng, false)
	c.conn.Close()
	fams := map[string]int{}
	problems := 0
	var cur *cli
	inBatch := 0
	probeN := 0
	// probeOnce issues a fresh call on the connection and answers it properly.
	probeOnce := func() string {
		probeN++
		args := svc.Build(svc.Spec{Run: 8, Conn: 3, Caller: 2, Counter: uint64(probeN)})
		var reply []byte
		before := cur.sm.NumWrites()
		call := cur.conn.Go("S.B0", &args, &reply, make(chan *rpc.Call, 4))
		find := func() (uint64, bool) {
			for k := before; k < cur.sm.NumWrites(); k++ {
				r, err := wire.DecodeReq(x.Hdr, cur.sm.Frame(k), false)
				if err == nil && bytes.Equal(r.Args, args) {
					return r.Seq, true
				}
			}
			return 0, false
		}
		if !waitFor(func() bool { _, ok := find(); return ok || len(call.Done) > 0 }, 10*time.Second) {
			return "probe request was not written"
		}
		seq, ok := find()
		if !ok {
			return fmt.Sprintf("probe call failed without being sent: %v", call.Error)
		}
		cur.sm.Push(wire.EncodeRes(x.Hdr, wire.Res{Seq: seq, Reply: svc.Reply(args)}))
		select {
		case <-call.Done:
			if call.Error != nil || !bytes.Equal(reply, svc.Reply(args)) {
				return fmt.Sprintf("probe call completed with err=%v / wrong reply", call.Error)
			}
		case <-time.After(10 * time.Second):
			return "probe call not completed within 10 s"
		}
		return ""
	}
	probe := func(i int, in hinput) {
		// A hostile response may legitimately hit the sequence number the
		// next call is about to use (then that call gets the hostile data);
		// what must hold is that the connection serves well-formed traffic
		// again once the hostile frames have been consumed.
		msg := ""
		for try := 0; try < 3; try++ {
			waitFor(func() bool { return cur.sm.Unread() == 0 }, 5*time.Second)
			time.Sleep(200 * time.Microsecond)
			if msg = probeOnce(); msg == "" {
				break
			}
		}
		if msg != "" && problems < 20 {
			problems++
			mon.Emit(mon.Result{T: "case", Engine: "hostile", Case: fmt.Sprintf("client/%s/mode%d/%s", x.Hdr, x.Mode, in.fam), Verdict: mon.Violated, Prop: "C08",
				What: fmt.Sprintf("after hostile response #%d (%s) the connection no longer serves well-formed traffic: %s", i, in.fam, msg), FSig: "C08/client/probe/" + x.Hdr,
				Witness: map[string]string{"frame": hex.EncodeToString(in.frame[:min(len(in.frame), 200)])}})
			cur.conn.Close()
			cur = nil
		}
	}
	for i := x.Skip; i < len(inputs) && (x.Limit == 0 || i < x.Limit); i++ {
		in := inputs[i]
		if problems >= 4 {
			mon.Note("hostile-worker", "well-formed probes keep failing; the remaining inputs of this configuration are not delivered")
			break
		}
		if cur == nil || inBatch >= 120 {
			if cur != nil {
				cur.conn.Close()
			}
			cur = setup()
			inBatch = 0
		}
		mon.Progress("hostile-worker", fmt.Sprintf("%d %s %s", i, in.fam, hex.EncodeToString(in.frame[:min(len(in.frame), 96)])))
		cur.sm.Push(in.frame)
		fams[strings.SplitN(in.fam, "/", 2)[0]]++
		inBatch++
		if x.Slow {
			time.Sleep(3 * time.Millisecond)
		}
		if inBatch%8 == 0 || x.Slow {
			probe(i, in)
		}
	}
	if cur != nil {
		cur.conn.Close()
	}
	time.Sleep(50 * time.Millisecond)
	st := map[string]int64{}
	for k, v := range fams {
		st["frames_"+k] = int64(v)
	}
	mon.Emit(mon.Result{T: "case", Engine: "hostile-worker", Case: "worker-summary", Verdict: mon.Held, Stats: st, N: len(inputs) - x.Skip})
}

// hostileSupervisor runs workers until the input list is exhausted.
func hostileSupervisor(a Args) {
	var x hostileExtra
	json.Unmarshal(a.Extra, &x)
	self, _ := os.Executable()
	work := os.Getenv("VT_WORK")
	os.MkdirAll(work, 0o755)
	skip := 0
	crashes := 0
	total := 0
	stats := map[string]int64{}
	sigs := map[string]bool{}
	var samples []string
	for round := 0; round < 60; round++ {
		x.Skip = skip
		ex, _ := json.Marshal(x)
		wa := a
		wa.Engine = "hostile-worker"
		wa.Extra = ex
		waj, _ := json.Marshal(wa)
		outp := fmt.Sprintf("%s/worker-%s-%s-%d-%d.jsonl", work, x.Side, x.Hdr, x.Mode, round)
		errp := outp + ".log"
		os.Remove(outp)
		cmd := exec.Command("timeout", "-s", "QUIT", "1200", self)
		cmd.Env = append(os.Environ(), "VT_ARGS="+string(waj), "VT_OUT="+outp)
		ef, _ := os.Create(errp)
		cmd.Stdout, cmd.Stderr = ef, ef
		err := cmd.Run()
		ef.Close()
		// read the worker's lines
		last := ""
		lastIdx := -1
		done := false
		if f, e := os.Open(outp); e == nil {
			sc := bufio.NewScanner(f)
			sc.Buffer(make([]byte, 1<<20), 1<<24)
			for sc.Scan() {
				var r mon.Result
				if json.Unmarshal(sc.Bytes(), &r) != nil {
					continue
				}
				switch r.T {
				case "progress":
					last = r.Case
					fmt.Sscanf(r.Case, "%d", &lastIdx)
					parts := strings.SplitN(r.Case, " ", 3)
					if len(parts) >= 2 {
						fam := strings.Split(parts[1], "/")
						key := fam[0]
						if len(fam) > 1 && (key == "trunc" || key == "corrupt" || key == "corpus") {
							key += "/" + fam[1]
						}
						if key == "upgrade" && len(fam) > 1 {
							key += "/" + fam[1]
						}
						sigs[fmt.Sprintf("%s/%s/mode%d/%s", x.Side, x.Hdr, x.Mode, key)] = true
					}
					if len(samples) < 4 && lastIdx%1501 == 7 {
						samples = append(samples, r.Case)
					}
				case "done":
					done = true
				case "case":
					if r.Engine == "hostile-worker" {
						total += r.N
						for k, v := range r.Stats {
							stats[k] += v
						}
					} else {
						mon.Emit(r)
					}
				}
			}
			f.Close()
		}
		if done {
			break // (a race-detector build exits 66 when it saw races; the done marker is what counts)
		}
		if !strings.Contains(string(mustRead(errp)), "panic:") && !strings.Contains(string(mustRead(errp)), "fatal error:") && !strings.Contains(string(mustRead(errp)), "SIGSEGV") {
			// the worker ended without a Go crash report (killed from outside,
			// watchdog): nothing can be concluded from that
			mon.Emit(mon.Result{T: "case", Engine: "hostile", Case: fmt.Sprintf("%s/%s/mode%d/worker", x.Side, x.Hdr, x.Mode), Verdict: mon.Inconclusive,
				What: fmt.Sprintf("worker ended (%v) without a crash report after input #%d; remaining inputs of this configuration were not delivered", err, lastIdx)})
			break
		}
		// the worker died: the last logged input is the witness; since inputs
		// are processed asynchronously, replay the last few one at a time to
		// find the one that kills the process
		crashes++
		text, _ := os.ReadFile(errp)
		exc := excerpt(string(text))
		if lastIdx >= 0 && !strings.Contains(last, "burst/") {
			px := x
			px.Skip, px.Limit, px.Slow = max(skip, lastIdx-9), lastIdx+1, true
			pex, _ := json.Marshal(px)
			pa := wa
			pa.Extra = pex
			paj, _ := json.Marshal(pa)
			pout := outp + ".pin"
			os.Remove(pout)
			pc := exec.Command("timeout", "-s", "QUIT", "300", self)
			pc.Env = append(os.Environ(), "VT_ARGS="+string(paj), "VT_OUT="+pout)
			pf, _ := os.Create(pout + ".log")
			pc.Stdout, pc.Stderr = pf, pf
			perr := pc.Run()
			pf.Close()
			if perr != nil {
				if f, e := os.Open(pout); e == nil {
					sc := bufio.NewScanner(f)
					sc.Buffer(make([]byte, 1<<20), 1<<24)
					pl, pi := "", -1
					for sc.Scan() {
						var r mon.Result
						if json.Unmarshal(sc.Bytes(), &r) == nil && r.T == "progress" {
							pl = r.Case
							fmt.Sscanf(r.Case, "%d", &pi)
						}
					}
					f.Close()
					if pi >= 0 {
						last, lastIdx = pl, pi
						if t2, e2 := os.ReadFile(pout + ".log"); e2 == nil {
							exc = excerpt(string(t2))
						}
					}
				}
			}
		}
		fam := "?"
		frameHex := ""
		if parts := strings.SplitN(last, " ", 3); len(parts) >= 2 {
			fam = parts[1]
			if len(parts) == 3 {
				frameHex = parts[2]
			}
		}
		total += max(0, lastIdx-skip)
		sig := fmt.Sprintf("C08/%s/hdr=%s/frame=%s", x.Side, x.Hdr, frameHex)
		if strings.HasPrefix(fam, "burst") {
			sig = fmt.Sprintf("C08/%s/burst+disconnect/%s", x.Side, panicLine(exc))
		}
		if crashes <= 25 {
			mon.Emit(mon.Result{T: "case", Engine: "hostile", Case: fmt.Sprintf("%s/%s/mode%d/%s", x.Side, x.Hdr, x.Mode, fam), Verdict: mon.Violated, Prop: "C08",
				What:    fmt.Sprintf("%s process died after %s frame %s (input #%d, header %s, mode %d): %s", x.Side, fam, frameHex, lastIdx, x.Hdr, x.Mode, panicLine(exc)),
				FSig:    sig,
				Witness: map[string]string{"frame_hex": frameHex, "family": fam, "stderr": exc}})
		}
		if lastIdx < skip {
			break // died before making progress
		}
		skip = lastIdx + 1
	}
	var sl []string
	for s := range sigs {
		sl = append(sl, s)
	}
	stats["worker_crashes"] = int64(crashes)
	mon.Emit(mon.Result{T: "case", Engine: "hostile", Case: fmt.Sprintf("%s/%s/mode%d/summary", x.Side, x.Hdr, x.Mode), Verdict: mon.Held, N: total, Sigs: sl, Stats: stats, Sample: samples})
}

func excerpt(s string) string {
	lines := strings.Split(s, "\n")
	for i, l := range lines {
		if strings.HasPrefix(l, "panic:") || strings.HasPrefix(l, "fatal error:") {
			return strings.Join(lines[i:min(len(lines), i+40)], "\n")
		}
	}
	if len(lines) > 30 {
		lines = lines[len(lines)-30:]
	}
	return strings.Join(lines, "\n")
}

func panicLine(exc string) string {
	l := strings.SplitN(exc, "\n", 2)[0]
	fr := ""
	for _, x := range strings.Split(exc, "\n") {
		if strings.HasPrefix(x, "github.com/hslam/") {
			fr = strings.SplitN(x, "(", 2)[0]
			break
		}
	}
	if len(l) > 160 {
		l = l[:160]
	}
	return l + " @ " + fr
}

func mustRead(p string) []byte {
	b, _ := os.ReadFile(p)
	return b
}
