package main

import (
	"encoding/json"
	"fmt"
	"math/rand"
	"sort"
	"strings"

	"verif/harness/mon"
	"verif/harness/rig"
	"verif/harness/scen"
	"verif/harness/svc"
	"verif/harness/wire"
)

// Engine "matrix" decides C12: the same seeded workload is run under a
// pairwise-covering set of configurations (plus seeded random ones) and every
// outcome is compared with the reference given by the pure reply function.

func init() { engines["matrix"] = matrixEngine }

type matrixExtra struct {
	Random int `json:"random"` // additional seeded random configurations
}

type mdim struct {
	name string
	vals []string
}

var matrixDims = []mdim{
	{"net", []string{"tcp", "tcp+tls", "unix", "unix+tls", "http", "http+tls", "inproc", "inproc+tls", "ws"}},
	{"hdr", wire.Formats},
	{"codec", svc.Codecs},
	{"poll", []string{"0", "1"}},
	{"sp", []string{"0", "1"}},
	{"sd", []string{"0", "1"}},
	{"ssh", []string{"0", "1"}},
	{"snc", []string{"0", "1"}},
	{"cp", []string{"0", "1"}},
	{"cd", []string{"0", "1"}},
	{"sbuf", []string{"0", "64", "4096", "65536", "262144", "3000", "70000"}},
	{"cbuf", []string{"0", "64", "4096", "65536", "262144", "3000", "70000"}},
	{"how", []string{"ctor", "optnames", "both", "names"}},
}

type mcfg []int // index per dimension

func (c mcfg) get(name string) string {
	for i, d := range matrixDims {
		if d.name == name {
			return d.vals[c[i]]
		}
	}
	return ""
}

func (c mcfg) set(name, val string) {
	for i, d := range matrixDims {
		if d.name == name {
			for j, v := range d.vals {
				if v == val {
					c[i] = j
				}
			}
		}
	}
}

// repair enforces the constraints of the supported set.
func (c mcfg) repair() {
	if c.get("snc") == "1" && c.get("codec") != svc.CodecJSON {
		c.set("snc", "0") // NoCopy only for codecs that do not alias argument bytes
	}
	if c.get("how") == "names" {
		c.set("hdr", wire.Default) // Listen/Dial take no header encoder
		c.set("cbuf", "0")
	}
	if c.get("net") == "ws" {
		// ws under poll mode stalls inside hslam/websocket + hslam/netpoll
		// (a zero-length answer or a message larger than the buffer is never
		// delivered); dependencies are out of scope, see DESIGN.md
		c.set("poll", "0")
	}
	if strings.HasPrefix(c.get("net"), "inproc") {
		c.set("poll", "0")
	}
}

func (c mcfg) String() string {
	var parts []string
	for i, d := range matrixDims {
		parts = append(parts, d.name+"="+d.vals[c[i]])
	}
	return strings.Join(parts, ",")
}

func (c mcfg) pairs() []string {
	var out []string
	for i := range matrixDims {
		for j := i + 1; j < len(matrixDims); j++ {
			out = append(out, fmt.Sprintf("%d=%d|%d=%d", i, c[i], j, c[j]))
		}
	}
	return out
}

// pairwise builds a covering set greedily from seeded random candidates.
func pairwise(rng *rand.Rand) []mcfg {
	need := map[string]bool{}
	// which pairs are achievable at all (after repair)? sample to find out
	for k := 0; k < 20000; k++ {
		c := make(mcfg, len(matrixDims))
		for i, d := range matrixDims {
			c[i] = rng.Intn(len(d.vals))
		}
		c.repair()
		for _, p := range c.pairs() {
			need[p] = true
		}
	}
	var out []mcfg
	for len(need) > 0 && len(out) < 400 {
		var best mcfg
		bestN := -1
		for k := 0; k < 60; k++ {
			c := make(mcfg, len(matrixDims))
			for i, d := range matrixDims {
				c[i] = rng.Intn(len(d.vals))
			}
			c.repair()
			n := 0
			for _, p := range c.pairs() {
				if need[p] {
					n++
				}
			}
			if n > bestN {
				best, bestN = c, n
			}
		}
		if bestN == 0 {
			// pick an uncovered pair and force it
			var keys []string
			for p := range need {
				keys = append(keys, p)
			}
			sort.Strings(keys)
			var i, vi, j, vj int
			fmt.Sscanf(keys[0], "%d=%d|%d=%d", &i, &vi, &j, &vj)
			for k := 0; k < 200; k++ {
				c := make(mcfg, len(matrixDims))
				for d := range matrixDims {
					c[d] = rng.Intn(len(matrixDims[d].vals))
				}
				c[i], c[j] = vi, vj
				c.repair()
				if c[i] == vi && c[j] == vj {
					best = c
					break
				}
			}
			if best == nil {
				delete(need, keys[0])
				continue
			}
		}
		for _, p := range best.pairs() {
			delete(need, p)
		}
		out = append(out, best)
	}
	return out
}

func (c mcfg) rig() rig.Config {
	net := c.get("net")
	cfg := rig.Config{Network: strings.TrimSuffix(net, "+tls"), TLS: strings.HasSuffix(net, "+tls"), Header: c.get("hdr"), Codec: c.get("codec")}
	cfg.SrvPoll = c.get("poll") == "1"
	cfg.SrvPipelining = c.get("sp") == "1"
	cfg.SrvDirect = c.get("sd") == "1"
	cfg.SrvShared = c.get("ssh") == "1"
	cfg.SrvNoCopy = c.get("snc") == "1"
	cfg.CliPipelining = c.get("cp") == "1"
	cfg.CliDirect = c.get("cd") == "1"
	fmt.Sscanf(c.get("sbuf"), "%d", &cfg.SrvBuf)
	fmt.Sscanf(c.get("cbuf"), "%d", &cfg.CliBuf)
	switch c.get("how") {
	case "optnames", "both", "names":
		cfg.How = c.get("how")
	}
	return cfg
}

func matrixEngine(a Args) {
	var x matrixExtra
	json.Unmarshal(a.Extra, &x)
	rng := rand.New(rand.NewSource(a.Seed*2713 + 99))
	set := pairwise(rng)
	npair := len(set)
	for k := 0; k < x.Random; k++ {
		c := make(mcfg, len(matrixDims))
		for i, d := range matrixDims {
			c[i] = rng.Intn(len(d.vals))
		}
		c.repair()
		set = append(set, c)
	}
	covered := map[string]bool{}
	for _, c := range set {
		for _, p := range c.pairs() {
			covered[p] = true
		}
	}
	for idx := a.From; idx < len(set); idx += a.Stride {
		c := set[idx]
		cs := "matrix/" + c.String()
		if !want(a, cs) {
			continue
		}
		mon.Progress("matrix", cs)
		p := scen.E2E{Profile: "matrix", Run: uint32(idx + 1), Seed: a.Seed*77 + 5, Via: "conn", Cfg: c.rig(), Conns: 2, Callers: 3, NOps: 8, Streams: 1}
		if p.Cfg.Network == "ws" {
			// the statement claims ws for one call at a time only
			p.Conns, p.Callers, p.Streams = 1, 1, 0
		}
		o := runRealE2E(p)
		// in a matrix run the reference is the pure reply function: any
		// deviation is a configuration-dependent outcome
		for i := range o.Findings {
			o.Findings[i].FSig = "C12/matrix/" + o.Findings[i].FSig
			o.Findings[i].What = "configuration " + c.String() + ": " + o.Findings[i].What
			o.Findings[i].Prop = "C12"
		}
		o.Sig = c.String()
		o.Nontrivial = true
		if idx%25 == 0 {
			o.Sample = map[string]interface{}{"configuration": c.String(), "workload": p.String()}
		}
		if idx == a.From {
			o.Stats["max_pairwise_set_size"] = int64(npair)
			o.Stats["max_value_pairs_covered"] = int64(len(covered))
		}
		emitOutcome("matrix", cs, a, o)
	}
}
