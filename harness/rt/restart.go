package main

import (
	"encoding/json"
	"fmt"
	"math/rand"
	"time"

	"github.com/hslam/rpc"
	"verif/harness/mon"
	"verif/harness/rig"
	"verif/harness/svc"
	"verif/harness/wire"
)

// Engine "restart" (real sockets): a Transport talks to a server that goes
// away and comes back on the same address, over tcp / unix / inproc with and
// without TLS - the network-specific ways in which a dead pooled connection
// shows itself (close_notify failing under TLS, socket files, in-process
// registrations) do not exist on the in-memory network.
//
// Decisions are counted, not timed: once the second server is reachable by a
// direct dial, a sequential caller makes 2*MaxConnsPerHost+3 calls; it may see
// at most one ErrShutdown per connection pooled at the kill, nothing else, and
// its last call must succeed (C14). Before that, the first (closed) server is
// closed once more - "repeated Close calls are safe" - and the second server
// must still accept new connections afterwards (C20).

func init() { engines["restart"] = restartEngine }

type restartExtra struct {
	N int `json:"n"`
}

func restartEngine(a Args) {
	var x restartExtra
	json.Unmarshal(a.Extra, &x)
	if x.N < 1 {
		x.N = 12
	}
	for i := 0; i < x.N; i++ {
		i := i
		done := make(chan struct{})
		go func() {
			defer close(done)
			restartCase(a, i)
		}()
		select {
		case <-done:
		case <-time.After(45 * time.Second):
			mon.Emit(mon.Result{T: "case", Engine: "restart", Case: fmt.Sprintf("restart/%d", i), Verdict: mon.Inconclusive, What: "the case did not finish within 45 s of real time"})
		}
	}
}

func restartCase(a Args, i int) {
	rng := rand.New(rand.NewSource(a.Seed*911 + int64(i)*7919))
	cfg := rig.Config{Network: []string{"unix", "tcp", "inproc", "unix"}[i%4], Header: wire.Formats[rng.Intn(4)], Codec: svc.Codecs[rng.Intn(4)],
		SrvPoll: rng.Intn(3) == 0, TLS: (i/4)%2 == 1}
	if cfg.Network == "inproc" {
		cfg.SrvPoll = false
	}
	maxConns := 1 + rng.Intn(3)
	cs := fmt.Sprintf("restart/%d/%s/max=%d", i, cfg, maxConns)
	if !want(a, cs) {
		return
	}
	mon.Progress("restart", cs)
	inconclusive := func(why string) {
		mon.Emit(mon.Result{T: "case", Engine: "restart", Case: cs, Verdict: mon.Inconclusive, What: why})
	}
	r1, err := startReal(cfg, a.Seed)
	if err != nil {
		inconclusive("server did not start: " + err.Error())
		return
	}
	addr := r1.Addr
	tr := &rpc.Transport{MaxConnsPerHost: maxConns, MaxIdleConnsPerHost: maxConns, KeepAlive: time.Minute, IdleConnTimeout: 2 * time.Minute, Options: r1.Options()}
	defer tr.Close()
	tc := rig.TransportCaller{T: tr, Addr: addr}
	call := func(n int) error {
		rec := rig.Do(tc, rig.FormCall, cfg.Codec, rig.Method(cfg.Codec, 0), svc.Spec{Run: uint32(i + 1), Conn: 5, Caller: 5, Counter: uint64(2 * n), ReplyLen: 20}, 0, nil)
		if rec.Err == nil && rig.CheckReply(rec) != "" {
			return fmt.Errorf("wrong reply")
		}
		return rec.Err
	}
	// fill the pool: concurrent calls held for a moment open maxConns connections
	okBefore := 0
	for n := 0; n < 2*maxConns+2; n++ {
		if call(n) == nil {
			okBefore++
		}
	}
	if okBefore == 0 {
		inconclusive("no call succeeded before the restart")
		r1.Server.Close()
		return
	}
	pooled := 0
	for _, v := range tr.VerifPool() {
		pooled += v[0] + v[1]
	}
	// the server goes away ...
	r1.Server.Close()
	rEnv{}.Settle(func() bool { ret, _ := r1.ListenReturned(); return ret }, 5*time.Second)
	time.Sleep(20 * time.Millisecond)
	// ... and another one comes up on the same address
	var r2 *rig.Rig
	for try := 0; try < 20 && r2 == nil; try++ {
		r := rig.Start(cfg, nil, addr, a.Seed+1)
		up := rEnv{}.Settle(func() bool {
			if ret, _ := r.ListenReturned(); ret {
				return true
			}
			c, err := r.DialOnce()
			if err == nil {
				c.Close()
				return true
			}
			return false
		}, 3*time.Second)
		if ret, _ := r.ListenReturned(); ret || !up {
			r.Server.Close()
			time.Sleep(50 * time.Millisecond)
			continue
		}
		r2 = r
	}
	if r2 == nil {
		inconclusive("the second server did not come up on " + addr)
		return
	}
	defer r2.Server.Close()
	verdict, what, fsig, prop := mon.Held, "", "", a.Prop
	// C20: closing the first, already closed, server again is safe
	if e := r1.Server.Close(); e != nil {
		verdict, prop, fsig = mon.Violated, "C20", "C20/restart/second-close-error"
		what = fmt.Sprintf("a second Server.Close returned %v [%s]", e, cs)
	}
	time.Sleep(20 * time.Millisecond)
	direct := func() error {
		c, err := r2.DialOnce()
		if err != nil {
			return err
		}
		defer c.Close()
		res := make(chan error, 1)
		go func() {
			rec := rig.Do(c, rig.FormCall, cfg.Codec, rig.Method(cfg.Codec, 0), svc.Spec{Run: uint32(i + 1), Conn: 6, Caller: 6, Counter: 1, ReplyLen: 5}, 0, nil)
			res <- rec.Err
		}()
		select {
		case e := <-res:
			return e
		case <-time.After(3 * time.Second):
			return fmt.Errorf("not answered within 3 s")
		}
	}
	var derr error
	for try := 0; try < 3; try++ {
		if derr = direct(); derr == nil {
			break
		}
	}
	if derr != nil && verdict == mon.Held {
		if derr.Error() == "not answered within 3 s" {
			inconclusive("the restarted server accepts connections but does not answer (netpoll)")
			return
		}
		verdict, prop, fsig = mon.Violated, "C20", "C20/restart/stale-close-broke-new-server"
		what = fmt.Sprintf("after the first server on %s had been closed, a second server listened there and the first was closed once more (repeated Close calls are safe), new connections to the second server fail: %v [%s]", addr, derr, cs)
	}
	// C14: the Transport recovers
	if verdict == mon.Held {
		shutdowns, others := 0, 0
		var last, firstOther error
		n := 2*maxConns + 3
		for k := 0; k < n; k++ {
			last = call(100 + k)
			switch {
			case last == nil:
			case last == rpc.ErrShutdown:
				shutdowns++
			default:
				others++
				if firstOther == nil {
					firstOther = last
				}
			}
		}
		switch {
		case shutdowns > pooled:
			verdict, prop, fsig = mon.Violated, "C14", "C14/restart/too-many-failures"
			what = fmt.Sprintf("after the server had come back (a direct dial succeeds), a sequential caller saw %d ErrShutdown failures in %d calls although only %d connections were pooled when the server went away [%s]", shutdowns, n, pooled, cs)
		case last != nil:
			verdict, prop, fsig = mon.Violated, "C14", "C14/restart/no-recovery"
			what = fmt.Sprintf("after the server had come back (a direct dial succeeds), the last of %d sequential calls through the Transport still failed with %v (%d ErrShutdown, %d other failures, %d connections pooled at the kill) [%s]", n, last, shutdowns, others, pooled, cs)
		case others > 0:
			verdict, prop, fsig = mon.Violated, "C14", "C14/restart/other-error"
			what = fmt.Sprintf("after the server had come back, a call through the Transport failed with %v (neither ErrShutdown from a dead pooled connection nor success) [%s]", firstOther, cs)
		}
	}
	stats := map[string]int64{"restarts": 1, "pooled_at_kill": int64(pooled)}
	if verdict == mon.Violated && a.Prop != "" && prop != a.Prop {
		// a finding against another property: left to that property's check
		verdict, what, fsig, prop = mon.Held, "", "", a.Prop
		stats["findings_for_other_properties"] = 1
	}
	mon.Emit(mon.Result{T: "case", Engine: "restart", Case: cs, Verdict: verdict, Prop: prop, What: what, FSig: fsig, Sig: cs, Nontrivial: true, Stats: stats})
}
