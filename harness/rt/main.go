// Command rt runs the real-time engines (substrate R of DESIGN.md) and the
// engines that need no clock at all. Job description in $VT_ARGS, results in
// $VT_OUT (see package mon).
package main

import (
	"encoding/json"
	"fmt"
	"os"
	"time"

	"verif/harness/mon"
)

// Args is the job description passed by the driver.
type Args struct {
	Engine string          `json:"engine"`
	Prop   string          `json:"prop"`
	Tier   string          `json:"tier"`
	Seed   int64           `json:"seed"`
	From   int             `json:"from"`
	To     int             `json:"to"`
	Stride int             `json:"stride"`
	Cases  []string        `json:"cases,omitempty"`
	Extra  json.RawMessage `json:"extra,omitempty"`
}

var engines = map[string]func(a Args){}

func main() {
	var a Args
	if err := json.Unmarshal([]byte(os.Getenv("VT_ARGS")), &a); err != nil {
		fmt.Fprintln(os.Stderr, "rt: bad VT_ARGS:", err)
		os.Exit(3)
	}
	run, ok := engines[a.Engine]
	if !ok {
		fmt.Fprintln(os.Stderr, "rt: unknown engine", a.Engine)
		os.Exit(3)
	}
	if a.Stride <= 0 {
		a.Stride = 1
	}
	if a.Tier == "thorough" {
		realBudget = 120 * time.Second
	}
	mon.Open()
	if a.Engine != "hostile" {
		mon.StartDeadlockWatch(a.Prop, a.Engine, 20*time.Second, func() { os.Exit(0) })
	}
	run(a)
	mon.Done(a.Engine)
	mon.Close()
}

func want(a Args, c string) bool {
	if len(a.Cases) == 0 {
		return true
	}
	for _, x := range a.Cases {
		if x == c {
			return true
		}
	}
	return false
}
