package svc

import (
	"errors"
	"time"

	"github.com/hslam/rpc"
	"verif/harness/wire"
)

// Body codec names used by the harness.
const (
	CodecBytes = "bytes"
	CodecJSON  = "json"
	CodecPB    = "pb"
	CodecCode  = "code"
)

// Codecs lists all body codecs.
var Codecs = []string{CodecBytes, CodecJSON, CodecPB, CodecCode}

// NewCodec returns the rpc.Codec constructor for a body codec name.
func NewCodec(name string) func() rpc.Codec {
	switch name {
	case CodecBytes:
		return func() rpc.Codec { return &rpc.BYTESCodec{} }
	case CodecJSON:
		return rpc.NewJSONCodec
	case CodecPB:
		return rpc.NewPBCodec
	case CodecCode:
		return rpc.NewCODECodec
	}
	return nil
}

// NewEncoder returns the header encoder constructor (nil for the built-in).
func NewEncoder(name string) func() rpc.Encoder {
	switch name {
	case wire.PB:
		return rpc.NewPBEncoder
	case wire.Code:
		return rpc.NewCODEEncoder
	case wire.JSON:
		return rpc.NewJSONEncoder
	}
	return nil
}

// JMsg is the message type for the json body codec.
type JMsg struct {
	D []byte
}

// JInt has a field that clashes with JMsg's, to provoke a decode failure.
type JInt struct {
	D int
}

// JBad cannot be encoded by encoding/json. With Slow set its encoding takes
// a little (virtual) time before it fails, which opens the window between the
// registration of a call and the write of its request.
type JBad struct {
	F    func()
	Slow bool
}

// MarshalJSON implements json.Marshaler.
func (b *JBad) MarshalJSON() ([]byte, error) {
	if b.Slow {
		time.Sleep(300 * time.Microsecond)
	}
	return nil, errors.New("JBad: cannot marshal")
}

// PMsg is the message type for the pb body codec (field 1, bytes). Its
// decoder is total and aliases its input.
type PMsg struct {
	D []byte
}

// Size implements rpc.GoGoProtobuf.
func (m *PMsg) Size() int {
	if len(m.D) == 0 {
		return 0
	}
	return 1 + len(wire.AppendUvarint(nil, uint64(len(m.D)))) + len(m.D)
}

// Marshal implements rpc.GoGoProtobuf.
func (m *PMsg) Marshal() ([]byte, error) {
	b := make([]byte, m.Size())
	n, err := m.MarshalTo(b)
	return b[:n], err
}

// MarshalTo implements rpc.GoGoProtobuf.
func (m *PMsg) MarshalTo(b []byte) (int, error) {
	if len(m.D) == 0 {
		return 0, nil
	}
	if len(b) < m.Size() {
		return 0, errors.New("PMsg: short buffer")
	}
	b[0] = 1<<3 | 2
	l := wire.AppendUvarint(b[1:1], uint64(len(m.D)))
	n := 1 + len(l)
	copy(b[n:], m.D)
	return n + len(m.D), nil
}

// Unmarshal implements rpc.GoGoProtobuf.
func (m *PMsg) Unmarshal(b []byte) error {
	m.D = nil
	if len(b) == 0 {
		return nil
	}
	if b[0] != 1<<3|2 {
		return errors.New("PMsg: bad tag")
	}
	l, n, err := wire.Uvarint(b[1:], false)
	if err != nil {
		return errors.New("PMsg: bad length")
	}
	if uint64(len(b)-1-n) != l {
		return errors.New("PMsg: length mismatch")
	}
	m.D = b[1+n:]
	return nil
}

// PRaw marshals to exactly the bytes it holds (to send arbitrary bodies).
type PRaw struct {
	B []byte
}

// Size implements rpc.GoGoProtobuf.
func (m *PRaw) Size() int { return len(m.B) }

// Marshal implements rpc.GoGoProtobuf.
func (m *PRaw) Marshal() ([]byte, error) { return append([]byte(nil), m.B...), nil }

// MarshalTo implements rpc.GoGoProtobuf.
func (m *PRaw) MarshalTo(b []byte) (int, error) { return copy(b, m.B), nil }

// Unmarshal implements rpc.GoGoProtobuf.
func (m *PRaw) Unmarshal(b []byte) error { m.B = b; return nil }

// PBad cannot be marshalled.
type PBad struct{ Slow bool }

// Size implements rpc.GoGoProtobuf.
func (m *PBad) Size() int { return 4 }

// Marshal implements rpc.GoGoProtobuf.
func (m *PBad) Marshal() ([]byte, error) {
	if m.Slow {
		time.Sleep(300 * time.Microsecond)
	}
	return nil, errors.New("PBad: cannot marshal")
}

// MarshalTo implements rpc.GoGoProtobuf.
func (m *PBad) MarshalTo([]byte) (int, error) {
	if m.Slow {
		time.Sleep(300 * time.Microsecond)
	}
	return 0, errors.New("PBad: cannot marshal")
}

// Unmarshal implements rpc.GoGoProtobuf.
func (m *PBad) Unmarshal([]byte) error { return nil }

// CMsg is the message type for the code body codec (varint length + bytes).
type CMsg struct {
	D []byte
}

// Marshal implements rpc.Code.
func (m *CMsg) Marshal(buf []byte) ([]byte, error) {
	buf = wire.AppendUvarint(buf[:0], uint64(len(m.D)))
	return append(buf, m.D...), nil
}

// Unmarshal implements rpc.Code.
func (m *CMsg) Unmarshal(b []byte) (uint64, error) {
	m.D = nil
	l, n, err := wire.Uvarint(b, false)
	if err != nil {
		return 0, errors.New("CMsg: bad length")
	}
	if uint64(len(b)-n) != l {
		return 0, errors.New("CMsg: length mismatch")
	}
	m.D = b[n:]
	return uint64(len(b)), nil
}

// CRaw marshals to exactly the bytes it holds.
type CRaw struct {
	B []byte
}

// Marshal implements rpc.Code.
func (m *CRaw) Marshal(buf []byte) ([]byte, error) { return append(buf[:0], m.B...), nil }

// Unmarshal implements rpc.Code.
func (m *CRaw) Unmarshal(b []byte) (uint64, error) { m.B = b; return uint64(len(b)), nil }

// CBad cannot be marshalled.
type CBad struct{ Slow bool }

// Marshal implements rpc.Code.
func (m *CBad) Marshal([]byte) ([]byte, error) {
	if m.Slow {
		time.Sleep(300 * time.Microsecond)
	}
	return nil, errors.New("CBad: cannot marshal")
}

// Unmarshal implements rpc.Code.
func (m *CBad) Unmarshal(b []byte) (uint64, error) { return 0, nil }

// Box abstracts over the four message types.
type Box interface {
	Get() []byte
	Set([]byte)
	Ptr() interface{}
}

type bBox struct{ v []byte }
type jBox struct{ v JMsg }
type pBox struct{ v PMsg }
type cBox struct{ v CMsg }

func (b *bBox) Get() []byte      { return b.v }
func (b *bBox) Set(d []byte)     { b.v = d }
func (b *bBox) Ptr() interface{} { return &b.v }
func (b *jBox) Get() []byte      { return b.v.D }
func (b *jBox) Set(d []byte)     { b.v.D = d }
func (b *jBox) Ptr() interface{} { return &b.v }
func (b *pBox) Get() []byte      { return b.v.D }
func (b *pBox) Set(d []byte)     { b.v.D = d }
func (b *pBox) Ptr() interface{} { return &b.v }
func (b *cBox) Get() []byte      { return b.v.D }
func (b *cBox) Set(d []byte)     { b.v.D = d }
func (b *cBox) Ptr() interface{} { return &b.v }

// NewBox returns an empty message of the type the codec needs.
func NewBox(codec string) Box {
	switch codec {
	case CodecJSON:
		return &jBox{}
	case CodecPB:
		return &pBox{}
	case CodecCode:
		return &cBox{}
	}
	return &bBox{}
}

// Prefix returns the method-name letter of a codec ("B", "J", "P", "C").
func Prefix(codec string) string {
	switch codec {
	case CodecJSON:
		return "J"
	case CodecPB:
		return "P"
	case CodecCode:
		return "C"
	}
	return "B"
}

// Aliasing reports whether values decoded by the codec alias the input bytes.
func Aliasing(codec string) bool { return codec != CodecJSON }
