// Package svc holds the user side of the monitored system: self-describing
// payloads, the pure reply function the oracles know, message types for the
// four body codecs, the handlers and the handler ledger (monitor M2).
package svc

import (
	"crypto/sha256"
	"encoding/binary"
	"encoding/hex"
	"fmt"
	"sync/atomic"
)

// Layout of an argument payload.
const (
	offMagic   = 0  // "VRPC"
	offRun     = 4  // uint32
	offConn    = 8  // uint32
	offCaller  = 12 // uint32
	offCounter = 16 // uint64
	offDelay   = 24 // uint32 handler delay, microseconds
	offReply   = 28 // uint32 length of the stretch part of the reply
	offFail    = 32 // uint32 0 = succeed, else length of the error text
	offFlags   = 36 // uint32
	// HeaderLen is the fixed part of a payload.
	HeaderLen = 40
	// IDLen is the length of the id prefix (magic + run/conn/caller/counter).
	IDLen = 24
)

// Payload flags.
const (
	FlagRawErr     = 1 << iota // error text contains arbitrary (non UTF-8) bytes
	FlagEmptyReply             // the handler's reply is empty (a body that encodes to nothing under bytes/pb)
)

var magic = [4]byte{'V', 'R', 'P', 'C'}

var clock int64

// Stamp returns the next value of the single logical clock all monitors use.
func Stamp() int64 { return atomic.AddInt64(&clock, 1) }

// Spec describes one request.
type Spec struct {
	Run, Conn, Caller uint32
	Counter           uint64
	DelayUs           uint32
	ReplyLen          uint32
	FailLen           uint32
	Flags             uint32
	Fill              int // filler bytes after the header
}

// ID is the printable request id.
func (s Spec) ID() string {
	return fmt.Sprintf("%d/%d/%d/%d", s.Run, s.Conn, s.Caller, s.Counter)
}

func xorshift(x *uint64) uint64 {
	*x ^= *x << 13
	*x ^= *x >> 7
	*x ^= *x << 17
	return *x
}

// fill writes a deterministic byte stream derived from seed into b.
func fill(b []byte, seed uint64) {
	x := seed | 1
	i := 0
	for ; i+8 <= len(b); i += 8 {
		binary.LittleEndian.PutUint64(b[i:], xorshift(&x))
	}
	if i < len(b) {
		var t [8]byte
		binary.LittleEndian.PutUint64(t[:], xorshift(&x))
		copy(b[i:], t[:])
	}
}

// Build returns the argument payload for s.
func Build(s Spec) []byte {
	b := make([]byte, HeaderLen+s.Fill)
	copy(b[offMagic:], magic[:])
	binary.BigEndian.PutUint32(b[offRun:], s.Run)
	binary.BigEndian.PutUint32(b[offConn:], s.Conn)
	binary.BigEndian.PutUint32(b[offCaller:], s.Caller)
	binary.BigEndian.PutUint64(b[offCounter:], s.Counter)
	binary.BigEndian.PutUint32(b[offDelay:], s.DelayUs)
	binary.BigEndian.PutUint32(b[offReply:], s.ReplyLen)
	binary.BigEndian.PutUint32(b[offFail:], s.FailLen)
	binary.BigEndian.PutUint32(b[offFlags:], s.Flags)
	fill(b[HeaderLen:], uint64(s.Run)<<40^uint64(s.Conn)<<32^uint64(s.Caller)<<20^s.Counter*0x9e3779b97f4a7c15)
	return b
}

// Parse decodes the header of a payload.
func Parse(b []byte) (Spec, bool) {
	var s Spec
	if len(b) < HeaderLen || b[0] != magic[0] || b[1] != magic[1] || b[2] != magic[2] || b[3] != magic[3] {
		return s, false
	}
	s.Run = binary.BigEndian.Uint32(b[offRun:])
	s.Conn = binary.BigEndian.Uint32(b[offConn:])
	s.Caller = binary.BigEndian.Uint32(b[offCaller:])
	s.Counter = binary.BigEndian.Uint64(b[offCounter:])
	s.DelayUs = binary.BigEndian.Uint32(b[offDelay:])
	s.ReplyLen = binary.BigEndian.Uint32(b[offReply:])
	s.FailLen = binary.BigEndian.Uint32(b[offFail:])
	s.Flags = binary.BigEndian.Uint32(b[offFlags:])
	s.Fill = len(b) - HeaderLen
	if s.DelayUs > 120_000_000 || s.ReplyLen > 8<<20 || s.FailLen > 8<<20 {
		// not something the harness generates (a corrupted header): do not
		// let it make a handler sleep for hours or allocate gigabytes
		return Spec{}, false
	}
	return s, true
}

// Sum is a digest of a byte string.
func Sum(b []byte) [32]byte { return sha256.Sum256(b) }

// SumHex is a short printable digest.
func SumHex(b []byte) string {
	s := sha256.Sum256(b)
	return hex.EncodeToString(s[:8])
}

// Reply is the pure function every handler computes: id ‖ SHA-256(args) ‖
// stretch(ReplyLen). Its size is independent of the size of args.
func Reply(args []byte) []byte {
	s, ok := Parse(args)
	if !ok {
		return []byte("BAD-PAYLOAD")
	}
	if s.Flags&FlagEmptyReply != 0 {
		return []byte{}
	}
	h := sha256.Sum256(args)
	out := make([]byte, IDLen+32+int(s.ReplyLen))
	copy(out, args[:IDLen])
	copy(out[IDLen:], h[:])
	fill(out[IDLen+32:], binary.LittleEndian.Uint64(h[:8]))
	return out
}

// ErrText is the error text a failing handler returns for args. It embeds
// the request id, is never empty and has exactly FailLen bytes when FailLen is
// at least the length of the id prefix.
func ErrText(args []byte) string {
	s, ok := Parse(args)
	if !ok {
		return "bad payload"
	}
	pre := "E[" + s.ID() + "]"
	n := int(s.FailLen)
	if n <= len(pre) {
		return pre[:max(1, n)]
	}
	b := make([]byte, n)
	copy(b, pre)
	rest := b[len(pre):]
	if s.Flags&FlagRawErr != 0 {
		fill(rest, s.Counter*31+uint64(s.Caller)+7)
		for i := range rest {
			if rest[i] == 0 {
				rest[i] = 0xfe
			}
		}
		return string(b)
	}
	// valid UTF-8 with 1-, 2-, 3- and 4-byte runes
	runes := []string{"a", "Z", "7", "é", "ß", "語", "€", "𝄞", " ", "\"", "\\", "<", "\n"}
	x := s.Counter*131 + uint64(s.Caller) + 1
	i := 0
	for i < len(rest) {
		r := runes[xorshift(&x)%uint64(len(runes))]
		if i+len(r) > len(rest) {
			r = "."
		}
		copy(rest[i:], r)
		i += len(r)
	}
	return string(b)
}

// StreamMsg builds a stream message (stream id, direction, index).
func StreamMsg(stream uint64, dir byte, index uint32, kind byte, n uint32, size int) []byte {
	if size < StreamHdr {
		size = StreamHdr
	}
	b := make([]byte, size)
	copy(b, "VSTM")
	binary.BigEndian.PutUint64(b[4:], stream)
	b[12] = dir
	b[13] = kind
	binary.BigEndian.PutUint32(b[14:], index)
	binary.BigEndian.PutUint32(b[18:], n)
	fill(b[StreamHdr:], stream*1000003+uint64(index)*2+uint64(dir))
	return b
}

// Stream message constants.
const (
	StreamHdr = 22
	DirUp     = 'U' // client to server
	DirDown   = 'D' // server to client (answer to an Echo)
	DirPush   = 'P' // server to client before any client message
	KindEcho  = 'E' // server answers with one DirDown message
	KindSink  = 'S' // server only records
	KindBurst = 'B' // server answers with N DirDown messages
	KindEmpty = 'Z' // a message with no content at all (the server only records it)
)

// StreamInfo is the decoded header of a stream message.
type StreamInfo struct {
	Stream uint64
	Dir    byte
	Kind   byte
	Index  uint32
	N      uint32
	OK     bool
}

// ParseStream decodes a stream message and verifies its filler.
func ParseStream(b []byte) StreamInfo {
	var si StreamInfo
	if len(b) < StreamHdr || string(b[:4]) != "VSTM" {
		return si
	}
	si.Stream = binary.BigEndian.Uint64(b[4:])
	si.Dir = b[12]
	si.Kind = b[13]
	si.Index = binary.BigEndian.Uint32(b[14:])
	si.N = binary.BigEndian.Uint32(b[18:])
	want := make([]byte, len(b)-StreamHdr)
	fill(want, si.Stream*1000003+uint64(si.Index)*2+uint64(si.Dir))
	si.OK = string(want) == string(b[StreamHdr:])
	return si
}

// DownSize is the size of the server's answer number i on stream s; it is
// independent of the size of what the client sent.
func DownSize(stream uint64, index uint32) int {
	x := stream*77 + uint64(index)*13 + 5
	v := xorshift(&x)
	switch v % 16 {
	case 0:
		return StreamHdr
	case 1:
		return 70000
	case 2:
		return 4096
	}
	return StreamHdr + int(v>>8%700)
}
