package svc

import (
	"bytes"
	"encoding/json"
)

// ExtractPayload finds the harness payload inside an encoded message body as
// seen on the wire (monitor M3): the exact decoding for the codec first, then
// a search for the payload magic near the start (bodies built to be
// undecodable still carry the id).
func ExtractPayload(codec string, body []byte) ([]byte, bool) {
	switch codec {
	case CodecJSON:
		var m JMsg
		if json.Unmarshal(body, &m) == nil {
			if _, ok := Parse(m.D); ok {
				return m.D, true
			}
		}
	case CodecPB:
		var m PMsg
		if m.Unmarshal(body) == nil {
			if _, ok := Parse(m.D); ok {
				return m.D, true
			}
		}
	case CodecCode:
		var m CMsg
		if _, err := m.Unmarshal(body); err == nil {
			if _, ok := Parse(m.D); ok {
				return m.D, true
			}
		}
	default:
		if _, ok := Parse(body); ok {
			return body, true
		}
	}
	lim := len(body)
	if lim > 24 {
		lim = 24
	}
	if i := bytes.Index(body[:lim], magic[:]); i >= 0 {
		if _, ok := Parse(body[i:]); ok {
			return body[i:], true
		}
	}
	return nil, false
}
