package svc

import (
	"context"
	"errors"
	"sync"
	"sync/atomic"
	"time"

	"github.com/hslam/rpc"
)

// Exec is one handler execution.
type Exec struct {
	ID     string
	Spec   Spec
	Known  bool // payload parsed
	Method string
	ArgSum [32]byte
	ArgLen int
	Enter  int64
	Exit   int64
	Kept   []byte // the argument slice exactly as handed to the handler
	Failed bool
}

// MsgRec is one stream message seen by a server-side stream handler.
type MsgRec struct {
	Info StreamInfo
	Sum  [32]byte
	Len  int
	Kept []byte
}

// StreamRec is one server-side stream handler execution.
type StreamRec struct {
	Serial   uint64
	Svc      string
	Codec    string
	Enter    int64
	Exit     int64 // 0 while running
	Reads    []MsgRec
	ReadErr  string
	WriteErr string
	Pushed   int
	Downs    int
}

// Ledger is the handler ledger (monitor M2).
type Ledger struct {
	mu       sync.Mutex
	Execs    []*Exec
	Streams  []*StreamRec
	Retain   bool
	active   map[uint32]int
	Overlaps []string
	serial   uint64
	// Sleep is called for handler delays (time.Sleep when nil).
	Sleep func(time.Duration)
}

// NewLedger returns an empty ledger.
func NewLedger() *Ledger { return &Ledger{active: make(map[uint32]int)} }

// Snapshot returns copies of the execution and stream records.
func (l *Ledger) Snapshot() ([]Exec, []StreamRec, []string) {
	l.mu.Lock()
	defer l.mu.Unlock()
	ex := make([]Exec, len(l.Execs))
	for i, e := range l.Execs {
		ex[i] = *e
	}
	st := make([]StreamRec, len(l.Streams))
	for i, s := range l.Streams {
		st[i] = *s
		st[i].Reads = append([]MsgRec(nil), s.Reads...)
	}
	return ex, st, append([]string(nil), l.Overlaps...)
}

// Running returns how many unary handlers and stream handlers have not exited.
// NumExecs returns how many unary handler executions have been entered.
func (l *Ledger) NumExecs() int {
	l.mu.Lock()
	defer l.mu.Unlock()
	return len(l.Execs)
}

func (l *Ledger) Running() (unary, streams int) {
	l.mu.Lock()
	defer l.mu.Unlock()
	for _, e := range l.Execs {
		if e.Exit == 0 {
			unary++
		}
	}
	for _, s := range l.Streams {
		if s.Exit == 0 {
			streams++
		}
	}
	return
}

func (l *Ledger) sleep(d time.Duration) {
	if d <= 0 {
		return
	}
	if l.Sleep != nil {
		l.Sleep(d)
		return
	}
	time.Sleep(d)
}

func (l *Ledger) enter(method string, in []byte) *Exec {
	e := &Exec{Method: method, ArgSum: Sum(in), ArgLen: len(in)}
	e.Spec, e.Known = Parse(in)
	if e.Known {
		e.ID = e.Spec.ID()
	}
	l.mu.Lock()
	e.Enter = Stamp()
	if l.Retain {
		e.Kept = in
	}
	l.Execs = append(l.Execs, e)
	if e.Known {
		l.active[e.Spec.Conn]++
		if l.active[e.Spec.Conn] > 1 {
			l.Overlaps = append(l.Overlaps, e.ID)
		}
	}
	l.mu.Unlock()
	return e
}

func (l *Ledger) exit(e *Exec, failed bool) {
	l.mu.Lock()
	e.Failed = failed
	if e.Known {
		l.active[e.Spec.Conn]--
	}
	e.Exit = Stamp()
	l.mu.Unlock()
}

// S is the unary service. Method names are <codec letter><shape digit>:
// shape 0 (args, reply) error; 1 (ctx, args, reply) error;
// 2 (args) (reply, error); 3 (ctx, args) (reply, error).
type S struct {
	L *Ledger
}

func (s *S) handle(method string, c context.Context, in []byte) ([]byte, error) {
	e := s.L.enter(method, in)
	if !e.Known {
		s.L.exit(e, true)
		return nil, errors.New("bad payload")
	}
	s.L.sleep(time.Duration(e.Spec.DelayUs) * time.Microsecond)
	if e.Spec.FailLen > 0 {
		txt := ErrText(in)
		s.L.exit(e, true)
		return nil, errors.New(txt)
	}
	out := Reply(in)
	if c != nil {
		if buf := rpc.GetContextBuffer(c); cap(buf) >= len(out) && len(out) > 0 && e.Spec.Counter%3 != 0 {
			buf = buf[:len(out)]
			copy(buf, out)
			out = buf
		} else if e.Spec.Counter%3 == 0 {
			// a handler that does not use the context buffer for its reply
			// hands it back, as the documentation of FreeContextBuffer says
			rpc.FreeContextBuffer(c)
		}
	}
	s.L.exit(e, false)
	return out, nil
}

// B0 is a handler.
func (s *S) B0(a *[]byte, r *[]byte) (err error) { *r, err = s.handle("B0", nil, *a); return }

// B1 is a handler.
func (s *S) B1(c context.Context, a *[]byte, r *[]byte) (err error) {
	*r, err = s.handle("B1", c, *a)
	return
}

// B2 is a handler.
func (s *S) B2(a *[]byte) (*[]byte, error) { o, err := s.handle("B2", nil, *a); return &o, err }

// B3 is a handler.
func (s *S) B3(c context.Context, a *[]byte) (*[]byte, error) {
	o, err := s.handle("B3", c, *a)
	return &o, err
}

// J0 is a handler.
func (s *S) J0(a *JMsg, r *JMsg) (err error) { r.D, err = s.handle("J0", nil, a.D); return }

// J1 is a handler.
func (s *S) J1(c context.Context, a *JMsg, r *JMsg) (err error) {
	r.D, err = s.handle("J1", c, a.D)
	return
}

// J2 is a handler.
func (s *S) J2(a *JMsg) (*JMsg, error) { o, err := s.handle("J2", nil, a.D); return &JMsg{D: o}, err }

// J3 is a handler.
func (s *S) J3(c context.Context, a *JMsg) (*JMsg, error) {
	o, err := s.handle("J3", c, a.D)
	return &JMsg{D: o}, err
}

// P0 is a handler.
func (s *S) P0(a *PMsg, r *PMsg) (err error) { r.D, err = s.handle("P0", nil, a.D); return }

// P1 is a handler.
func (s *S) P1(c context.Context, a *PMsg, r *PMsg) (err error) {
	r.D, err = s.handle("P1", c, a.D)
	return
}

// P2 is a handler.
func (s *S) P2(a *PMsg) (*PMsg, error) { o, err := s.handle("P2", nil, a.D); return &PMsg{D: o}, err }

// P3 is a handler.
func (s *S) P3(c context.Context, a *PMsg) (*PMsg, error) {
	o, err := s.handle("P3", c, a.D)
	return &PMsg{D: o}, err
}

// C0 is a handler.
func (s *S) C0(a *CMsg, r *CMsg) (err error) { r.D, err = s.handle("C0", nil, a.D); return }

// C1 is a handler.
func (s *S) C1(c context.Context, a *CMsg, r *CMsg) (err error) {
	r.D, err = s.handle("C1", c, a.D)
	return
}

// C2 is a handler.
func (s *S) C2(a *CMsg) (*CMsg, error) { o, err := s.handle("C2", nil, a.D); return &CMsg{D: o}, err }

// C3 is a handler.
func (s *S) C3(c context.Context, a *CMsg) (*CMsg, error) {
	o, err := s.handle("C3", c, a.D)
	return &CMsg{D: o}, err
}

// JMismatch can never decode a JMsg body.
func (s *S) JMismatch(a *JInt, r *JMsg) error {
	e := s.L.enter("JMismatch", nil)
	s.L.exit(e, true)
	return errors.New("JMismatch executed")
}

// JBadReply succeeds but its reply cannot be encoded.
func (s *S) JBadReply(a *JMsg, r *JBad) error {
	e := s.L.enter("JBadReply", a.D)
	r.F = func() {}
	s.L.exit(e, false)
	return nil
}

// PBadReply succeeds but its reply cannot be encoded.
func (s *S) PBadReply(a *PMsg, r *PBad) error {
	e := s.L.enter("PBadReply", a.D)
	s.L.exit(e, false)
	return nil
}

// CBadReply succeeds but its reply cannot be encoded.
func (s *S) CBadReply(a *CMsg, r *CBad) error {
	e := s.L.enter("CBadReply", a.D)
	s.L.exit(e, false)
	return nil
}

// BadReplyMethod returns the method whose reply cannot be encoded under the
// codec ("" if the codec has none).
func BadReplyMethod(codec string) string {
	switch codec {
	case CodecJSON:
		return "S.JBadReply"
	case CodecPB:
		return "S.PBadReply"
	case CodecCode:
		return "S.CBadReply"
	}
	return ""
}

// --------------------------------------------------------------- streams ---

// StrmB is the server-side stream wrapper for the bytes codec.
type StrmB struct{ st rpc.Stream }

// Connect implements rpc.SetStream.
func (s *StrmB) Connect(st rpc.Stream) error { s.st = st; return nil }

// Read reads one message.
func (s *StrmB) Read(buf []byte, m *[]byte) error { return s.st.ReadMessage(buf, m) }

// Write writes one message.
func (s *StrmB) Write(m *[]byte) error { return s.st.WriteMessage(m) }

// StrmJ is the server-side stream wrapper for the json codec.
type StrmJ struct{ st rpc.Stream }

// Connect implements rpc.SetStream.
func (s *StrmJ) Connect(st rpc.Stream) error { s.st = st; return nil }

// Read reads one message.
func (s *StrmJ) Read(buf []byte, m *JMsg) error { return s.st.ReadMessage(buf, m) }

// Write writes one message.
func (s *StrmJ) Write(m *JMsg) error { return s.st.WriteMessage(m) }

// StrmP is the server-side stream wrapper for the pb codec.
type StrmP struct{ st rpc.Stream }

// Connect implements rpc.SetStream.
func (s *StrmP) Connect(st rpc.Stream) error { s.st = st; return nil }

// Read reads one message.
func (s *StrmP) Read(buf []byte, m *PMsg) error { return s.st.ReadMessage(buf, m) }

// Write writes one message.
func (s *StrmP) Write(m *PMsg) error { return s.st.WriteMessage(m) }

// StrmC is the server-side stream wrapper for the code codec.
type StrmC struct{ st rpc.Stream }

// Connect implements rpc.SetStream.
func (s *StrmC) Connect(st rpc.Stream) error { s.st = st; return nil }

// Read reads one message.
func (s *StrmC) Read(buf []byte, m *CMsg) error { return s.st.ReadMessage(buf, m) }

// Write writes one message.
func (s *StrmC) Write(m *CMsg) error { return s.st.WriteMessage(m) }

// T is a stream service. Register it under a name of your choice with
// RegisterName; Push is the number of messages the handler writes before it
// reads anything.
type T struct {
	L    *Ledger
	Name string
	Push int
	// Fan > 1 makes the handler read its stream from that many goroutines at
	// once (a handler fanning its input out to workers); it returns when all
	// of them have returned.
	Fan int
}

// PushBit marks the stream ids of pushed messages (server-assigned serials).
const PushBit = uint64(1) << 63

func (t *T) run(st rpc.Stream, codec string) error {
	rec := &StreamRec{Svc: t.Name, Codec: codec}
	rec.Serial = atomic.AddUint64(&t.L.serial, 1)
	t.L.mu.Lock()
	rec.Enter = Stamp()
	t.L.Streams = append(t.L.Streams, rec)
	t.L.mu.Unlock()
	finish := func(rerr, werr string) error {
		t.L.mu.Lock()
		rec.ReadErr, rec.WriteErr = rerr, werr
		rec.Exit = Stamp()
		t.L.mu.Unlock()
		if rerr != "" {
			return errors.New(rerr)
		}
		return nil
	}
	write := func(b []byte) error {
		box := NewBox(codec)
		box.Set(b)
		return st.WriteMessage(box.Ptr())
	}
	for i := 0; i < t.Push; i++ {
		m := StreamMsg(rec.Serial|PushBit, DirPush, uint32(i), 0, uint32(t.Push), DownSize(rec.Serial, uint32(i)))
		if err := write(m); err != nil {
			return finish("", err.Error())
		}
		t.L.mu.Lock()
		rec.Pushed++
		t.L.mu.Unlock()
	}
	if t.Fan > 1 {
		var wg sync.WaitGroup
		errs := make([]string, t.Fan)
		for k := 0; k < t.Fan; k++ {
			wg.Add(1)
			go func(k int) {
				defer wg.Done()
				for {
					box := NewBox(codec)
					if err := st.ReadMessage(nil, box.Ptr()); err != nil {
						errs[k] = err.Error()
						return
					}
					b := box.Get()
					mr := MsgRec{Info: ParseStream(b), Sum: Sum(b), Len: len(b)}
					t.L.mu.Lock()
					rec.Reads = append(rec.Reads, mr)
					t.L.mu.Unlock()
					if mr.Info.Kind == KindEcho {
						write(StreamMsg(mr.Info.Stream, DirDown, mr.Info.Index, mr.Info.Kind, mr.Info.Index, StreamHdr+8))
					}
				}
			}(k)
		}
		wg.Wait()
		return finish(errs[0], "")
	}
	down := uint32(0)
	var reuse Box
	if rec.Serial%2 == 1 && !t.L.Retain {
		reuse = NewBox(codec) // a handler that reads every message into one variable
	}
	for nr := 0; ; nr++ {
		box := reuse
		if box == nil {
			box = NewBox(codec)
		}
		// handlers, too, pass buffers of their own of varying capacity
		var ubuf []byte
		if c := []int{-1, 0, 24, 512, 66000}[(int(rec.Serial)+nr)%5]; c >= 0 {
			ubuf = make([]byte, c)
		}
		if err := st.ReadMessage(ubuf, box.Ptr()); err != nil {
			return finish(err.Error(), "")
		}
		b := box.Get()
		mr := MsgRec{Info: ParseStream(b), Sum: Sum(b), Len: len(b)}
		t.L.mu.Lock()
		if t.L.Retain {
			mr.Kept = b
		}
		rec.Reads = append(rec.Reads, mr)
		t.L.mu.Unlock()
		n := 0
		switch mr.Info.Kind {
		case KindEcho:
			n = 1
		case KindBurst:
			n = int(mr.Info.N)
		}
		for i := 0; i < n; i++ {
			m := StreamMsg(mr.Info.Stream, DirDown, down, mr.Info.Kind, mr.Info.Index, DownSize(mr.Info.Stream, down))
			if err := write(m); err != nil {
				return finish("", err.Error())
			}
			down++
			t.L.mu.Lock()
			rec.Downs++
			t.L.mu.Unlock()
		}
	}
}

// SB serves a stream with the bytes codec.
func (t *T) SB(s *StrmB) error { return t.run(s.st, CodecBytes) }

// SJ serves a stream with the json codec.
func (t *T) SJ(s *StrmJ) error { return t.run(s.st, CodecJSON) }

// SP serves a stream with the pb codec.
func (t *T) SP(s *StrmP) error { return t.run(s.st, CodecPB) }

// SC serves a stream with the code codec.
func (t *T) SC(s *StrmC) error { return t.run(s.st, CodecCode) }

// Register registers the unary service "S" and stream services "T<k>" for the
// given push counts on server.
func Register(server *rpc.Server, l *Ledger, pushes ...int) {
	server.RegisterName("S", &S{L: l})
	for _, k := range pushes {
		name := "T" + itoa(k)
		server.RegisterName(name, &T{L: l, Name: name, Push: k})
	}
	server.RegisterName("F2", &T{L: l, Name: "F2", Fan: 2})
}

func itoa(i int) string {
	if i == 0 {
		return "0"
	}
	var b []byte
	for i > 0 {
		b = append([]byte{byte('0' + i%10)}, b...)
		i /= 10
	}
	return string(b)
}

// StreamMethod returns the stream method name for a push count and codec.
func StreamMethod(push int, codec string) string {
	return "T" + itoa(push) + ".S" + Prefix(codec)
}
