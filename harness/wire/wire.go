// Package wire holds reference implementations, written from the documented
// formats and not from hslam/rpc's code, of the message framing and of the four
// header formats (monitor M3 of DESIGN.md).
package wire

import (
	"bytes"
	"encoding/base64"
	"encoding/json"
	"errors"
	"fmt"
	"sort"
	"unicode/utf8"
)

// Header format names. Default is what the built-in (nil encoder) path emits:
// protobuf wire format, same schema as PB.
const (
	Default = "default"
	PB      = "pb"
	Code    = "code"
	JSON    = "json"
)

// Formats lists all header formats.
var Formats = []string{Default, PB, Code, JSON}

// Req is a request header.
type Req struct {
	Seq     uint64
	Upgrade []byte
	Method  string
	Args    []byte
}

// Res is a response header.
type Res struct {
	Seq   uint64
	Error string
	Reply []byte
}

// Flags is the decoded one-byte upgrade field.
type Flags struct {
	NoRequest  bool
	NoResponse bool
	Heartbeat  bool
	Stream     uint8 // 0 none, 1 open, 2 message, 3 close
}

// Byte packs the flags: bit 7 NoRequest, bit 6 NoResponse, bit 5 Heartbeat,
// bits 4-3 Stream.
func (f Flags) Byte() byte {
	var b byte
	if f.NoRequest {
		b |= 1 << 7
	}
	if f.NoResponse {
		b |= 1 << 6
	}
	if f.Heartbeat {
		b |= 1 << 5
	}
	b |= (f.Stream & 3) << 3
	return b
}

// ParseFlags unpacks an upgrade byte.
func ParseFlags(b byte) Flags {
	return Flags{
		NoRequest:  b&(1<<7) != 0,
		NoResponse: b&(1<<6) != 0,
		Heartbeat:  b&(1<<5) != 0,
		Stream:     (b >> 3) & 3,
	}
}

// Upgrade constants for building requests.
var (
	UpPing   = []byte{Flags{NoRequest: true, NoResponse: true, Heartbeat: true}.Byte()}
	UpOpen   = []byte{Flags{NoRequest: true, NoResponse: true, Stream: 1}.Byte()}
	UpStream = []byte{Flags{NoResponse: true, Stream: 2}.Byte()}
	UpClose  = []byte{Flags{NoRequest: true, NoResponse: true, Stream: 3}.Byte()}
)

// ---------------------------------------------------------------- varints --

// AppendUvarint appends the minimal base-128 varint of v.
func AppendUvarint(dst []byte, v uint64) []byte {
	for v >= 0x80 {
		dst = append(dst, byte(v)|0x80)
		v >>= 7
	}
	return append(dst, byte(v))
}

var (
	errShort    = errors.New("wire: truncated")
	errOverflow = errors.New("wire: varint overflows 64 bits")
	errNonMin   = errors.New("wire: non-minimal varint")
)

// Uvarint decodes a varint; strict rejects non-minimal encodings.
func Uvarint(b []byte, strict bool) (v uint64, n int, err error) {
	var s uint
	for i := 0; i < len(b); i++ {
		c := b[i]
		if i == 9 && c > 1 {
			return 0, 0, errOverflow
		}
		v |= uint64(c&0x7f) << s
		if c < 0x80 {
			if strict && i > 0 && c == 0 {
				return 0, 0, errNonMin
			}
			return v, i + 1, nil
		}
		s += 7
		if i == 9 {
			return 0, 0, errOverflow
		}
	}
	return 0, 0, errShort
}

// ---------------------------------------------------------------- framing --

// AppendFrame appends payload as one length-prefixed message frame.
func AppendFrame(dst, payload []byte) []byte {
	dst = AppendUvarint(dst, uint64(len(payload)))
	return append(dst, payload...)
}

// Frame is one frame located in a byte stream.
type Frame struct {
	Start, End int // End is exclusive; the frame is complete iff End <= len(stream)
	Payload    []byte
}

// SplitFrames splits a byte stream into complete frames and returns the
// number of bytes consumed by them.
func SplitFrames(stream []byte) (frames []Frame, consumed int) {
	off := 0
	for off < len(stream) {
		l, n, err := Uvarint(stream[off:], false)
		if err != nil {
			break
		}
		if uint64(len(stream)-off-n) < l {
			break
		}
		end := off + n + int(l)
		frames = append(frames, Frame{Start: off, End: end, Payload: stream[off+n : end]})
		off = end
	}
	return frames, off
}

// ------------------------------------------------------------ protobuf ----

type pbField struct {
	num  int
	wt   int
	v    uint64
	data []byte
}

func pbParse(b []byte, strict bool) ([]pbField, error) {
	var out []pbField
	for len(b) > 0 {
		tag, n, err := Uvarint(b, strict)
		if err != nil {
			return nil, fmt.Errorf("tag: %w", err)
		}
		b = b[n:]
		f := pbField{num: int(tag >> 3), wt: int(tag & 7)}
		if f.num == 0 {
			return nil, errors.New("wire: field number 0")
		}
		switch f.wt {
		case 0:
			v, n, err := Uvarint(b, strict)
			if err != nil {
				return nil, fmt.Errorf("field %d: %w", f.num, err)
			}
			f.v = v
			b = b[n:]
		case 1:
			if len(b) < 8 {
				return nil, errShort
			}
			b = b[8:]
		case 2:
			l, n, err := Uvarint(b, strict)
			if err != nil {
				return nil, fmt.Errorf("field %d len: %w", f.num, err)
			}
			b = b[n:]
			if uint64(len(b)) < l {
				return nil, fmt.Errorf("field %d: %w", f.num, errShort)
			}
			f.data = b[:l]
			b = b[l:]
		case 5:
			if len(b) < 4 {
				return nil, errShort
			}
			b = b[4:]
		default:
			return nil, fmt.Errorf("wire: wire type %d", f.wt)
		}
		out = append(out, f)
	}
	return out, nil
}

func pbAppendBytes(dst []byte, num int, data []byte) []byte {
	if len(data) == 0 {
		return dst
	}
	dst = AppendUvarint(dst, uint64(num<<3|2))
	dst = AppendUvarint(dst, uint64(len(data)))
	return append(dst, data...)
}

func pbEncodeReq(r Req) []byte {
	var b []byte
	if r.Seq != 0 {
		b = AppendUvarint(b, 1<<3|0)
		b = AppendUvarint(b, r.Seq)
	}
	b = pbAppendBytes(b, 2, r.Upgrade)
	b = pbAppendBytes(b, 3, []byte(r.Method))
	b = pbAppendBytes(b, 4, r.Args)
	return b
}

func pbEncodeRes(r Res) []byte {
	var b []byte
	if r.Seq != 0 {
		b = AppendUvarint(b, 1<<3|0)
		b = AppendUvarint(b, r.Seq)
	}
	b = pbAppendBytes(b, 2, []byte(r.Error))
	b = pbAppendBytes(b, 3, r.Reply)
	return b
}

func pbDecodeReq(b []byte, strict bool) (Req, error) {
	var r Req
	fs, err := pbParse(b, strict)
	if err != nil {
		return r, err
	}
	for _, f := range fs {
		switch {
		case f.num == 1 && f.wt == 0:
			r.Seq = f.v
		case f.num == 2 && f.wt == 2:
			r.Upgrade = f.data
		case f.num == 3 && f.wt == 2:
			r.Method = string(f.data)
		case f.num == 4 && f.wt == 2:
			r.Args = f.data
		case f.num >= 1 && f.num <= 4:
			return r, fmt.Errorf("wire: field %d has wire type %d", f.num, f.wt)
		default:
			if strict {
				return r, fmt.Errorf("wire: unknown field %d", f.num)
			}
		}
	}
	return r, nil
}

func pbDecodeRes(b []byte, strict bool) (Res, error) {
	var r Res
	fs, err := pbParse(b, strict)
	if err != nil {
		return r, err
	}
	for _, f := range fs {
		switch {
		case f.num == 1 && f.wt == 0:
			r.Seq = f.v
		case f.num == 2 && f.wt == 2:
			r.Error = string(f.data)
		case f.num == 3 && f.wt == 2:
			r.Reply = f.data
		case f.num >= 1 && f.num <= 3:
			return r, fmt.Errorf("wire: field %d has wire type %d", f.num, f.wt)
		default:
			if strict {
				return r, fmt.Errorf("wire: unknown field %d", f.num)
			}
		}
	}
	return r, nil
}

// ---------------------------------------------------------------- code ----

func codeAppend(dst []byte, data []byte) []byte {
	dst = AppendUvarint(dst, uint64(len(data)))
	return append(dst, data...)
}

func codeTake(b []byte, strict bool) (data, rest []byte, err error) {
	l, n, err := Uvarint(b, strict)
	if err != nil {
		return nil, nil, err
	}
	b = b[n:]
	if uint64(len(b)) < l {
		return nil, nil, errShort
	}
	return b[:l], b[l:], nil
}

func codeEncodeReq(r Req) []byte {
	b := AppendUvarint(nil, r.Seq)
	b = codeAppend(b, r.Upgrade)
	b = codeAppend(b, []byte(r.Method))
	b = codeAppend(b, r.Args)
	return b
}

func codeEncodeRes(r Res) []byte {
	b := AppendUvarint(nil, r.Seq)
	b = codeAppend(b, []byte(r.Error))
	b = codeAppend(b, r.Reply)
	return b
}

func codeDecodeReq(b []byte, strict bool) (Req, error) {
	var r Req
	seq, n, err := Uvarint(b, strict)
	if err != nil {
		return r, err
	}
	r.Seq = seq
	b = b[n:]
	var d []byte
	if d, b, err = codeTake(b, strict); err != nil {
		return r, err
	}
	r.Upgrade = d
	if d, b, err = codeTake(b, strict); err != nil {
		return r, err
	}
	r.Method = string(d)
	if d, b, err = codeTake(b, strict); err != nil {
		return r, err
	}
	r.Args = d
	if strict && len(b) != 0 {
		return r, errors.New("wire: trailing bytes")
	}
	return r, nil
}

func codeDecodeRes(b []byte, strict bool) (Res, error) {
	var r Res
	seq, n, err := Uvarint(b, strict)
	if err != nil {
		return r, err
	}
	r.Seq = seq
	b = b[n:]
	var d []byte
	if d, b, err = codeTake(b, strict); err != nil {
		return r, err
	}
	r.Error = string(d)
	if d, b, err = codeTake(b, strict); err != nil {
		return r, err
	}
	r.Reply = d
	if strict && len(b) != 0 {
		return r, errors.New("wire: trailing bytes")
	}
	return r, nil
}

// ---------------------------------------------------------------- json ----

func jsonBytes(b []byte) json.RawMessage {
	if b == nil {
		return json.RawMessage("null")
	}
	return json.RawMessage(`"` + base64.StdEncoding.EncodeToString(b) + `"`)
}

func jsonString(s string) json.RawMessage {
	m, _ := json.Marshal(s)
	return m
}

func jsonObj(keys []string, vals []json.RawMessage) []byte {
	var buf bytes.Buffer
	buf.WriteByte('{')
	for i, k := range keys {
		if i > 0 {
			buf.WriteByte(',')
		}
		buf.WriteString(`"` + k + `":`)
		buf.Write(vals[i])
	}
	buf.WriteByte('}')
	return buf.Bytes()
}

func jsonEncodeReq(r Req) []byte {
	return jsonObj([]string{"i", "u", "m", "p"}, []json.RawMessage{
		json.RawMessage(fmt.Sprintf("%d", r.Seq)), jsonBytes(r.Upgrade), jsonString(r.Method), jsonBytes(r.Args)})
}

func jsonEncodeRes(r Res) []byte {
	return jsonObj([]string{"i", "e", "r"}, []json.RawMessage{
		json.RawMessage(fmt.Sprintf("%d", r.Seq)), jsonString(r.Error), jsonBytes(r.Reply)})
}

func jsonFields(b []byte, allowed []string, strict bool) (map[string]json.RawMessage, error) {
	var m map[string]json.RawMessage
	if err := json.Unmarshal(b, &m); err != nil {
		return nil, err
	}
	if m == nil {
		return nil, errors.New("wire: json header is not an object")
	}
	if strict {
		var extra []string
		for k := range m {
			ok := false
			for _, a := range allowed {
				if a == k {
					ok = true
				}
			}
			if !ok {
				extra = append(extra, k)
			}
		}
		if len(extra) > 0 {
			sort.Strings(extra)
			return nil, fmt.Errorf("wire: unexpected json keys %v", extra)
		}
	}
	return m, nil
}

func jsonGetBytes(raw json.RawMessage) ([]byte, error) {
	if len(raw) == 0 || string(raw) == "null" {
		return nil, nil
	}
	var s string
	if err := json.Unmarshal(raw, &s); err != nil {
		return nil, err
	}
	return base64.StdEncoding.DecodeString(s)
}

func jsonGetString(raw json.RawMessage) (string, error) {
	if len(raw) == 0 || string(raw) == "null" {
		return "", nil
	}
	var s string
	err := json.Unmarshal(raw, &s)
	return s, err
}

func jsonGetSeq(raw json.RawMessage) (uint64, error) {
	if len(raw) == 0 || string(raw) == "null" {
		return 0, nil
	}
	var v uint64
	err := json.Unmarshal(raw, &v)
	return v, err
}

func jsonDecodeReq(b []byte, strict bool) (Req, error) {
	var r Req
	m, err := jsonFields(b, []string{"i", "u", "m", "p"}, strict)
	if err != nil {
		return r, err
	}
	if r.Seq, err = jsonGetSeq(m["i"]); err != nil {
		return r, err
	}
	if r.Upgrade, err = jsonGetBytes(m["u"]); err != nil {
		return r, err
	}
	if r.Method, err = jsonGetString(m["m"]); err != nil {
		return r, err
	}
	if r.Args, err = jsonGetBytes(m["p"]); err != nil {
		return r, err
	}
	return r, nil
}

func jsonDecodeRes(b []byte, strict bool) (Res, error) {
	var r Res
	m, err := jsonFields(b, []string{"i", "e", "r"}, strict)
	if err != nil {
		return r, err
	}
	if r.Seq, err = jsonGetSeq(m["i"]); err != nil {
		return r, err
	}
	if r.Error, err = jsonGetString(m["e"]); err != nil {
		return r, err
	}
	if r.Reply, err = jsonGetBytes(m["r"]); err != nil {
		return r, err
	}
	return r, nil
}

// ------------------------------------------------------------- dispatch ---

// EncodeReq encodes a request header in the given format.
func EncodeReq(format string, r Req) []byte {
	switch format {
	case Code:
		return codeEncodeReq(r)
	case JSON:
		return jsonEncodeReq(r)
	}
	return pbEncodeReq(r)
}

// EncodeRes encodes a response header in the given format.
func EncodeRes(format string, r Res) []byte {
	switch format {
	case Code:
		return codeEncodeRes(r)
	case JSON:
		return jsonEncodeRes(r)
	}
	return pbEncodeRes(r)
}

// DecodeReq decodes a request header; strict additionally demands a
// conforming encoding (minimal varints, known fields, no trailing bytes).
func DecodeReq(format string, b []byte, strict bool) (Req, error) {
	switch format {
	case Code:
		return codeDecodeReq(b, strict)
	case JSON:
		return jsonDecodeReq(b, strict)
	}
	return pbDecodeReq(b, strict)
}

// DecodeRes decodes a response header.
func DecodeRes(format string, b []byte, strict bool) (Res, error) {
	switch format {
	case Code:
		return codeDecodeRes(b, strict)
	case JSON:
		return jsonDecodeRes(b, strict)
	}
	return pbDecodeRes(b, strict)
}

// EqReq compares two request headers (nil and empty are the same).
func EqReq(a, b Req) bool {
	return a.Seq == b.Seq && bytes.Equal(a.Upgrade, b.Upgrade) && a.Method == b.Method && bytes.Equal(a.Args, b.Args)
}

// EqRes compares two response headers (nil and empty are the same).
func EqRes(a, b Res) bool {
	return a.Seq == b.Seq && a.Error == b.Error && bytes.Equal(a.Reply, b.Reply)
}

// ValidUTF8 reports whether s can be carried by the json header unchanged.
func ValidUTF8(s string) bool { return utf8.ValidString(s) }
